//! E-refactor: code actions (C09, C10) and rename (C08) on TLC-generated libraries.
//! The library is written to a real directory and served by a server started on that
//! path (production mode: random keys).  Every offered action at every line is resolved,
//! its workspace edit is applied to the harness' own copy of the library, and the before /
//! after texts are projected (independent pulldown projector) for the TLC judge.

use std::collections::{BTreeMap, BTreeSet};
use std::io::{BufRead, Write};
use std::path::{Path, PathBuf};
use std::time::Duration;

use lsp_types::Url;
use serde_json::{json, Value};

use crate::absdoc::{Block, Doc, Tok};
use crate::libx::{key_str, parse_url, Keyed, Lib};
use crate::project::project;
use crate::router::Client;

const T: Duration = Duration::from_secs(30);

fn furl(root: &Path, key: &str) -> String {
    Url::from_file_path(root.join(format!("{}.md", key))).map(|u| u.to_string()).unwrap_or_default()
}

fn key_of_uri(root: &Path, uri: &str) -> Option<String> {
    let p = Url::parse(uri).ok()?.to_file_path().ok()?;
    let rel = p.strip_prefix(root).ok()?.to_string_lossy().to_string();
    Some(rel.trim_end_matches(".md").to_string())
}

fn req(c: &mut Client, id: &mut i64, method: &str, params: Value) -> Result<Value, String> {
    *id += 1;
    let ids = id.to_string();
    c.send_req(&ids, method, params);
    match c.wait_response(&ids, T) {
        Some(r) => {
            if let Some(e) = r.error {
                Err(format!("error:{}", e.message.chars().take(60).collect::<String>()))
            } else {
                Ok(r.result.unwrap_or(Value::Null))
            }
        }
        None => Err("no-response".into()),
    }
}

/// apply a WorkspaceEdit (documentChanges operations) to a copy of the library
fn apply_edit(root: &Path, lib: &BTreeMap<String, String>, edit: &Value) -> Result<(BTreeMap<String, String>, Vec<String>, Vec<String>), String> {
    let mut out = lib.clone();
    let mut created = vec![];
    let mut deleted = vec![];
    let ops = edit.get("documentChanges").and_then(|v| v.as_array()).ok_or("no documentChanges")?;
    for op in ops {
        if let Some(kind) = op.get("kind").and_then(|k| k.as_str()) {
            let key = key_of_uri(root, op["uri"].as_str().unwrap_or("")).ok_or(format!("uri outside the library: {}", op["uri"]))?;
            match kind {
                "create" => {
                    if out.contains_key(&key) {
                        return Err(format!("create of an existing note {}", key));
                    }
                    out.insert(key.clone(), String::new());
                    created.push(key);
                }
                "delete" => {
                    if out.remove(&key).is_none() {
                        return Err(format!("delete of a missing note {}", key));
                    }
                    deleted.push(key);
                }
                other => return Err(format!("unsupported op {}", other)),
            }
        } else {
            let key = key_of_uri(root, op["textDocument"]["uri"].as_str().unwrap_or("")).ok_or("edit uri outside the library")?;
            for e in op["edits"].as_array().cloned().unwrap_or_default() {
                let new_text = e["newText"].as_str().unwrap_or("").to_string();
                let sl = e["range"]["start"]["line"].as_u64().unwrap_or(0);
                let el = e["range"]["end"]["line"].as_u64().unwrap_or(0);
                let cur = out.get(&key).cloned().ok_or(format!("edit of a missing note {}", key))?;
                if sl == 0 && el >= cur.lines().count() as u64 {
                    out.insert(key.clone(), new_text); // whole-document replacement
                } else if sl == 0 && el == 0 && cur.is_empty() {
                    out.insert(key.clone(), new_text); // insertion into a just created file
                } else {
                    return Err(format!("partial edit {}..{} of {}", sl, el, key));
                }
            }
        }
    }
    Ok((out, created, deleted))
}

fn collect_atoms(toks: &[Tok], dir: &[String], words: &mut Vec<String>, links: &mut Vec<Value>) {
    for t in toks {
        match t.k.as_str() {
            "W" => words.push(t.s.clone()),
            "Code" => words.push(format!("`{}", t.s)),
            "Html" => words.push(format!("<{}", t.s)),
            "Link" => {
                let (u, ext) = parse_url(&t.s);
                let mut text = vec![];
                let mut sub = vec![];
                collect_atoms(&t.c, dir, &mut text, &mut sub);
                let target: Vec<String> = if ext {
                    u.segs.clone()
                } else {
                    let mut k: Vec<String> = dir.to_vec();
                    for _ in 0..u.up.min(k.len()) {
                        k.pop();
                    }
                    k.extend(u.segs.clone());
                    k
                };
                let refreshable = !ext && t.x == "inline";
                if !refreshable {
                    // the text of such a link is content
                    words.extend(text.iter().cloned());
                }
                links.push(json!({"target": target, "ext": ext, "kind": t.x, "text": text.join(" "),
                                  "text_first": text.first().cloned().unwrap_or_default()}));
            }
            "Img" => {
                words.push(format!("!{}", t.s));
                collect_atoms(&t.c, dir, words, links);
            }
            _ => collect_atoms(&t.c, dir, words, links),
        }
    }
}

fn walk(bs: &[Block], dir: &[String], depth: usize, words: &mut Vec<String>, links: &mut Vec<Value>, shape: &mut Vec<Value>) {
    for b in bs {
        let w0 = words.len();
        match b.k.as_str() {
            "H" | "P" | "Code" => collect_atoms(&b.t, dir, words, links),
            "Tbl" => {
                for r in b.rows.iter() {
                    for c in r.iter() {
                        collect_atoms(c, dir, words, links);
                    }
                }
            }
            _ => {}
        }
        let is_ref = b.k == "P" && b.t.len() == 1 && b.t[0].k == "Link";
        shape.push(json!({"k": if is_ref { "Ref" } else { b.k.as_str() }, "l": b.l, "d": depth, "first": words.get(w0).cloned().unwrap_or_default()}));
        walk(&b.c, dir, depth + 1, words, links, shape);
        for it in b.items.iter() {
            shape.push(json!({"k": "item", "l": 0, "d": depth + 1, "first": ""}));
            walk(it, dir, depth + 2, words, links, shape);
        }
    }
}

/// projection of one note for the judge: words in order, links with resolved targets, block shape
pub fn view(key: &str, text: &str) -> Value {
    let d: Doc = project(text);
    let ks: Vec<String> = key.split('/').map(|s| s.to_string()).collect();
    let dir = ks[..ks.len() - 1].to_vec();
    let mut words = vec![];
    let mut links = vec![];
    let mut shape = vec![];
    walk(&d.blocks, &dir, 0, &mut words, &mut links, &mut shape);
    json!({"key": ks, "words": words, "links": links, "shape": shape, "meta": d.meta})
}

struct Served {
    client: Client,
    id: i64,
    root: PathBuf,
}

fn serve(root: &Path, lib: &BTreeMap<String, String>) -> Served {
    let _ = std::fs::remove_dir_all(root);
    for (k, t) in lib.iter() {
        let p = root.join(format!("{}.md", k));
        std::fs::create_dir_all(p.parent().unwrap()).unwrap();
        std::fs::write(p, t).unwrap();
    }
    Served { client: Client::start_on_path(&root.to_string_lossy(), Default::default()), id: 0, root: root.to_path_buf() }
}

impl Served {
    fn actions_at(&mut self, key: &str, line: u64) -> Vec<Value> {
        let u = furl(&self.root, key);
        req(&mut self.client, &mut self.id, "textDocument/codeAction",
            json!({"textDocument":{"uri":u},"range":{"start":{"line":line,"character":0},"end":{"line":line,"character":0}},"context":{"diagnostics":[]}}))
            .ok()
            .and_then(|v| v.as_array().cloned())
            .unwrap_or_default()
    }
    fn resolve(&mut self, action: &Value) -> Result<Value, String> {
        req(&mut self.client, &mut self.id, "codeAction/resolve", action.clone())
    }
    fn format(&mut self, key: &str) -> Option<String> {
        let u = furl(&self.root, key);
        req(&mut self.client, &mut self.id, "textDocument/formatting", json!({"textDocument":{"uri":u},"options":{"tabSize":2,"insertSpaces":true}}))
            .ok()
            .and_then(|v| v.as_array().and_then(|a| a.first().cloned()))
            .and_then(|e| e["newText"].as_str().map(|s| s.to_string()))
    }
    fn stop(mut self) {
        let _ = self.client.exit_and_join(Duration::from_secs(10));
    }
}

fn inverse_kind(kind: &str) -> Option<&'static str> {
    match kind {
        "refactor.rewrite.list.type" => Some("refactor.rewrite.list.type"),
        "refactor.rewrite.section.list" => Some("refactor.rewrite.list.section"),
        "refactor.extract.section" => Some("refactor.inline.reference.section"),
        _ => None,
    }
}

fn changed_views(before: &BTreeMap<String, String>, after: &BTreeMap<String, String>) -> (Vec<Value>, Vec<Value>, bool) {
    let mut b = vec![];
    let mut a = vec![];
    let keys: BTreeSet<&String> = before.keys().chain(after.keys()).collect();
    for k in keys {
        if before.get(k) != after.get(k) {
            if let Some(t) = before.get(k) {
                b.push(view(k, t));
            }
            if let Some(t) = after.get(k) {
                a.push(view(k, t));
            }
        }
    }
    (b, a, true)
}

/// `vh refactor-replay <libraries.ndjson> <events.ndjson> <scratch> [--shard i/n] [--from line]`
/// (`--from`: append to the events file and skip the libraries before that line - the driver resumes
/// after a stack overflow or abort of the code under test killed this process; every action is announced
/// by a Begin line before it is resolved, so the driver knows which one it was)
pub fn cmd_replay(args: &[String]) -> i32 {
    let mut shard = (0usize, 1usize);
    let mut from = 0usize;
    let mut i = 3;
    while i < args.len() {
        if args[i] == "--shard" {
            let p: Vec<usize> = args[i + 1].split('/').map(|s| s.parse().unwrap()).collect();
            shard = (p[0], p[1]);
            i += 1;
        } else if args[i] == "--from" {
            from = args[i + 1].parse().unwrap();
            i += 1;
        }
        i += 1;
    }
    std::panic::set_hook(Box::new(|_| {}));
    std::fs::create_dir_all(&args[2]).unwrap();
    let root = std::fs::canonicalize(&args[2]).unwrap().join(format!("r{}", shard.0)).join("lib");
    let f = std::fs::File::open(&args[0]).expect("libraries");
    let file = if from > 0 {
        std::fs::OpenOptions::new().append(true).open(&args[1]).expect("events")
    } else {
        std::fs::File::create(&args[1]).expect("events")
    };
    let mut out = std::io::BufWriter::new(file);
    let mut n = 0;
    for (ln, line) in std::io::BufReader::new(f).lines().enumerate() {
        let line = line.unwrap();
        if line.trim().is_empty() || ln % shard.1 != shard.0 || ln < from {
            continue;
        }
        let v: Value = serde_json::from_str(&line).unwrap();
        let init: Vec<Keyed> = serde_json::from_value(v["init"].clone()).unwrap();
        let mut l = Lib::new();
        for k in init.iter() {
            l.put(k);
        }
        let lib: BTreeMap<String, String> = l.notes.iter().map(|(k, v)| (k.clone(), v.2.clone())).collect();
        let mut s = serve(&root, &lib);
        // the formatted original of every note (what the round-trip laws compare with)
        let formatted: BTreeMap<String, String> = lib.keys().map(|k| (k.clone(), s.format(k).unwrap_or_default())).collect();
        let mut todo: Vec<(String, u64, Value)> = vec![];
        for (k, t) in lib.iter() {
            for line_no in 0..t.lines().count() as u64 + 1 {
                for a in s.actions_at(k, line_no) {
                    todo.push((k.clone(), line_no, a));
                }
            }
        }
        for (k, line_no, a) in todo.iter() {
            let kind = a["kind"].as_str().unwrap_or("").to_string();
            let mut e = json!({"ev":"Action","case":format!("{}:{}:{}:{}", ln, k, line_no, kind),"kind":kind,"key":key_str(&k.split('/').map(|x| x.to_string()).collect::<Vec<_>>()),
                               "line":line_no,"keys_before":lib.keys().map(|x| x.split('/').map(|y| y.to_string()).collect::<Vec<_>>()).collect::<Vec<_>>(),
                               "line_text": lib[k].lines().nth(*line_no as usize).unwrap_or("")});
            // the first word of the text on the line (without heading / list / quote markers)
            e["target_first"] = json!(lib[k]
                .lines()
                .nth(*line_no as usize)
                .unwrap_or("")
                .split_whitespace()
                .find(|w| !w.chars().all(|c| "#>-*+".contains(c)) && !(w.ends_with('.') && w[..w.len() - 1].chars().all(|c| c.is_ascii_digit())))
                .unwrap_or(""));
            writeln!(out, "{}", json!({"ev":"Begin","ln":ln,"case":e["case"],"kind":e["kind"],"line_text":e["line_text"]})).unwrap();
            out.flush().unwrap();
            match s.resolve(a) {
                Err(err) => {
                    e["res"] = json!(err);
                    e["before"] = json!([]);
                    e["after"] = json!([]);
                    e["created"] = json!([]);
                    e["deleted"] = json!([]);
                    e["rt"] = json!({"applicable": false, "restored": true});
                    e["ctx"] = json!({"prev_deeper": false, "adjacent_list": false});
                }
                Ok(resolved) => match apply_edit(&root, &lib, &resolved["edit"]) {
                    Err(err) => {
                        e["res"] = json!(format!("bad-edit:{}", err));
                        e["before"] = json!([]);
                        e["after"] = json!([]);
                        e["created"] = json!([]);
                        e["deleted"] = json!([]);
                        e["rt"] = json!({"applicable": false, "restored": true});
                        e["ctx"] = json!({"prev_deeper": false, "adjacent_list": false});
                    }
                    Ok((after, created, deleted)) => {
                        let (bv, av, _) = changed_views(&lib, &after);
                        e["res"] = json!("ok");
                        e["before"] = json!(bv);
                        e["after"] = json!(av);
                        e["created"] = json!(created.iter().map(|x| x.split('/').map(|y| y.to_string()).collect::<Vec<_>>()).collect::<Vec<_>>());
                        e["deleted"] = json!(deleted.iter().map(|x| x.split('/').map(|y| y.to_string()).collect::<Vec<_>>()).collect::<Vec<_>>());
                        // round trip: apply the inverse action to the edited library on a fresh server
                        let mut rt = json!({"applicable": false, "restored": true});
                        let first_sub = {
                            // the heading at line_no is the first sub-heading of its parent: the nearest preceding heading is shallower
                            let lines: Vec<&str> = lib[k].lines().collect();
                            let lvl = |l: &str| l.chars().take_while(|c| *c == '#').count();
                            let me = lvl(lines.get(*line_no as usize).unwrap_or(&""));
                            let prev = lines[..(*line_no as usize).min(lines.len())].iter().rev().find(|l| lvl(l) > 0 && l.chars().nth(lvl(l)) == Some(' ')).map(|l| lvl(l)).unwrap_or(0);
                            me > 0 && prev < me
                        };
                        if let Some(inv) = inverse_kind(&kind).filter(|_| kind != "refactor.extract.section" || first_sub) {
                            let root2 = root.parent().unwrap().join("lib2");
                            let mut s2 = serve(&root2, &after);
                            // where the converted element lives now
                            let target_line: Option<u64> = if kind == "refactor.extract.section" {
                                created.first().and_then(|ck| {
                                    let name = ck.rsplit('/').next().unwrap_or(ck).to_string();
                                    after[k].lines().position(|l| l.starts_with('[') && l.contains(&format!("{})", name))).map(|p| p as u64)
                                })
                            } else {
                                Some(*line_no)
                            };
                            if let Some(tl) = target_line {
                                let cands = s2.actions_at(k, tl);
                                if let Some(ia) = cands.iter().find(|c| c["kind"] == inv) {
                                    if let Ok(r2) = s2.resolve(ia) {
                                        if let Ok((after2, _, _)) = apply_edit(&root2, &after, &r2["edit"]) {
                                            let restored = after2.get(k) == formatted.get(k) && after2.len() == lib.len();
                                            rt = json!({"applicable": true, "restored": restored, "got": after2.get(k), "want": formatted.get(k)});
                                        } else {
                                            rt = json!({"applicable": true, "restored": false, "got": "bad edit"});
                                        }
                                    } else {
                                        rt = json!({"applicable": true, "restored": false, "got": "resolve failed"});
                                    }
                                }
                            }
                            s2.stop();
                            let _ = std::fs::remove_dir_all(&root2);
                        }
                        // syntactic context of the section for the wrap / unwrap law
                        let ctx = {
                            let lines: Vec<&str> = lib[k].lines().collect();
                            let lvl = |l: &str| { let n = l.chars().take_while(|c| *c == '#').count(); if n > 0 && l.chars().nth(n) == Some(' ') { n } else { 0 } };
                            let is_list = |l: &str| { let t = l.trim_start(); t.starts_with("- ") || t.starts_with("1. ") };
                            let ln = (*line_no as usize).min(lines.len().saturating_sub(1));
                            let me = lvl(lines.get(ln).unwrap_or(&""));
                            let prev_h = lines[..ln].iter().rev().map(|l| lvl(l)).find(|n| *n > 0).unwrap_or(0);
                            let prev_block = lines[..ln].iter().rev().find(|l| !l.trim().is_empty()).cloned().unwrap_or("");
                            let end = (ln + 1..lines.len()).find(|i| lvl(lines[*i]) > 0 && lvl(lines[*i]) <= me).unwrap_or(lines.len());
                            let next_block = lines[end..].iter().find(|l| !l.trim().is_empty()).cloned().unwrap_or("");
                            json!({"prev_deeper": me > 0 && prev_h >= me, "adjacent_list": is_list(prev_block) || is_list(next_block)})
                        };
                        e["rt"] = rt;
                        e["ctx"] = ctx;
                        e["text_before"] = json!(lib[k]);
                        e["text_after"] = json!(after.get(k));
                    }
                },
            }
            writeln!(out, "{}", e).unwrap();
            n += 1;
        }
        s.stop();
    }
    let _ = std::fs::remove_dir_all(root.parent().unwrap());
    out.flush().unwrap();
    println!("{}", json!({"actions": n}));
    0
}

// ---------------------------------------------------------------------------------------
// C08: rename
// ---------------------------------------------------------------------------------------

/// every link occurrence of a text as (line, character inside the link, url as written)
fn link_sites(text: &str) -> Vec<(u64, u64, String)> {
    let mut out = vec![];
    for (ln, line) in text.lines().enumerate() {
        let mut from = 0;
        while let Some(i) = line[from..].find("](") {
            let close = line[from + i..].find(')').map(|j| from + i + j);
            // the opening bracket of this link (brackets nest: a link inside an image's text)
            let mut depth = 0;
            let mut open = None;
            for (p, ch) in line[..from + i].char_indices().rev() {
                if ch == ']' {
                    depth += 1;
                } else if ch == '[' {
                    if depth == 0 {
                        open = Some(p);
                        break;
                    }
                    depth -= 1;
                }
            }
            // an image is not a link to a note
            if let (Some(o), Some(c)) = (open, close) {
                if o > 0 && line[..o].ends_with('!') {
                    from = c;
                    continue;
                }
            }
            if let (Some(o), Some(c)) = (open, close) {
                let url = line[from + i + 2..c].to_string();
                let col = line[..o].encode_utf16().count() as u64 + 1;
                out.push((ln as u64, col, url));
                from = c;
            } else {
                break;
            }
        }
    }
    out
}

/// `vh rename-replay <libraries.ndjson> <events.ndjson> <scratch> [--shard i/n]`
pub fn cmd_rename(args: &[String]) -> i32 {
    let mut shard = (0usize, 1usize);
    if args.len() > 4 && args[3] == "--shard" {
        let p: Vec<usize> = args[4].split('/').map(|s| s.parse().unwrap()).collect();
        shard = (p[0], p[1]);
    }
    std::panic::set_hook(Box::new(|_| {}));
    std::fs::create_dir_all(&args[2]).unwrap();
    let root = std::fs::canonicalize(&args[2]).unwrap().join(format!("n{}", shard.0)).join("lib");
    let f = std::fs::File::open(&args[0]).expect("libraries");
    let mut out = std::io::BufWriter::new(std::fs::File::create(&args[1]).expect("events"));
    let mut n = 0;
    let segs = |k: &str| -> Vec<String> { k.split('/').map(|x| x.to_string()).collect() };
    for (ln, line) in std::io::BufReader::new(f).lines().enumerate() {
        let line = line.unwrap();
        if line.trim().is_empty() || ln % shard.1 != shard.0 {
            continue;
        }
        let v: Value = serde_json::from_str(&line).unwrap();
        let init: Vec<Keyed> = serde_json::from_value(v["init"].clone()).unwrap();
        let mut l = Lib::new();
        for k in init.iter() {
            l.put(k);
        }
        let lib: BTreeMap<String, String> = l.notes.iter().map(|(k, v)| (k.clone(), v.2.clone())).collect();
        let mut s = serve(&root, &lib);
        // the editor has every note open and has saved each once (same text): the index went
        // through the incremental update path, as in a real session
        for (k, t) in lib.iter() {
            let u = furl(&s.root, k);
            s.client.send_notif("textDocument/didChange", json!({"textDocument":{"uri":u,"version":2},"contentChanges":[{"text":t}]}));
        }
        let all_before: Vec<Value> = lib.iter().map(|(k, t)| view(k, t)).collect();
        for (k, t) in lib.iter() {
            let dir: Vec<String> = { let mut d = segs(k); d.pop(); d };
            for (sl, sc, url) in link_sites(t) {
                let (u, ext) = parse_url(&url);
                if ext {
                    continue;
                }
                // new names as the user types them at this site
                let taken = lib.keys().find(|x| *x != k).cloned().unwrap_or_default();
                let taken_rel = liwe::model::Key::from_file_name(&taken).to_rel_link_url(&dir.join("/"));
                let own = k.rsplit('/').next().unwrap_or(k).to_string(); // the name of the note holding the link, as typed from its own directory
                for (cls, new_name) in [("free", "fresh".to_string()), ("free-sub", "sub/fresh".to_string()), ("taken", taken_rel.clone()), ("own", own.clone()), ("same", url.trim_end_matches(".md").to_string())] {
                    let uri = furl(&s.root, k);
                    let prep = req(&mut s.client, &mut s.id, "textDocument/prepareRename", json!({"textDocument":{"uri":uri},"position":{"line":sl,"character":sc}}));
                    let ren = req(&mut s.client, &mut s.id, "textDocument/rename", json!({"textDocument":{"uri":uri},"position":{"line":sl,"character":sc},"newName":new_name}));
                    let (nu, _) = parse_url(&new_name);
                    let mut e = json!({"ev":"Rename","case":format!("{}:{}:{}:{}:{}", ln, k, sl, sc, cls),"site":segs(k),"site_dir":dir,"url":u,"new_name":nu,"cls":cls,
                                       "keys_before":lib.keys().map(|x| segs(x)).collect::<Vec<_>>(),"all_before":all_before,
                                       "prepare_ok": prep.as_ref().map(|p| !p.is_null()).unwrap_or(false)});
                    match ren {
                        Err(err) => {
                            e["res"] = json!(err);
                            e["after"] = json!([]);
                            e["created"] = json!([]);
                            e["deleted"] = json!([]);
                        }
                        Ok(edit) if edit.get("code").is_some() && edit.get("documentChanges").is_none() => {
                            // the handler's refusal is written into the result
                            e["res"] = json!("refused");
                            e["after"] = json!([]);
                            e["created"] = json!([]);
                            e["deleted"] = json!([]);
                        }
                        Ok(edit) if edit.is_null() => {
                            e["res"] = json!("no-edit");
                            e["after"] = json!([]);
                            e["created"] = json!([]);
                            e["deleted"] = json!([]);
                        }
                        Ok(edit) => match apply_edit(&root, &lib, &edit) {
                            Err(err) => {
                                e["res"] = json!(format!("bad-edit:{}", err));
                                e["after"] = json!([]);
                                e["created"] = json!([]);
                                e["deleted"] = json!([]);
                            }
                            Ok((after, created, deleted)) => {
                                e["res"] = json!("ok");
                                // all notes after the edit; `same` marks the ones that are byte-identical
                                e["after"] = json!(after.iter().map(|(k2, t2)| { let mut vv = view(k2, t2); vv["same"] = json!(lib.get(k2) == Some(t2)); vv }).collect::<Vec<_>>());
                                e["created"] = json!(created.iter().map(|x| segs(x)).collect::<Vec<_>>());
                                e["deleted"] = json!(deleted.iter().map(|x| segs(x)).collect::<Vec<_>>());
                                e["texts_after"] = json!(after);
                            }
                        },
                    }
                    e["texts_before"] = json!(lib);
                    let rc = e["res"].as_str().unwrap_or("").split(':').next().unwrap_or("").to_string();
                    e["res_class"] = json!(rc);
                    writeln!(out, "{}", e).unwrap();
                    n += 1;
                }
            }
        }
        s.stop();
    }
    let _ = std::fs::remove_dir_all(root.parent().unwrap());
    out.flush().unwrap();
    println!("{}", json!({"renames": n}));
    0
}
