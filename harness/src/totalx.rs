//! E-doc / C03: totality.  Every operation the property names is run on every text; a panic
//! is caught and recorded, an abort / stack overflow kills the child process and is
//! attributed to the text it was working on, a run over the time budget is a hang.

use std::collections::HashMap;
use std::io::{BufRead, Write};
use std::time::{Duration, Instant};

use liwe::database::Database;
use liwe::graph::Graph;
use liwe::model::config::MarkdownOptions;
use liwe::model::Key;
use serde_json::{json, Value};

use crate::docrun::catch;
use crate::router::{uri, Client};

fn lsp_ops(text: &str, budget: Duration) -> Vec<(String, String)> {
    let mut res = vec![];
    let mut state: HashMap<String, String> = HashMap::new();
    state.insert("k".into(), "# placeholder\n".into());
    state.insert("other".into(), "# Other\n\n[k](k)\n".into());
    let mut c = Client::start(state, Default::default());
    let u = uri("k");
    let t0 = Instant::now();
    // the text arrives in an edit notification
    c.send_notif("textDocument/didChange", json!({"textDocument":{"uri":u,"version":2},"contentChanges":[{"text":text}]}));
    let mut id = 0i64;
    let mut ask = |c: &mut Client, m: &str, p: Value| -> (String, Option<Value>) {
        id += 1;
        c.send_req(&id.to_string(), m, p);
        match c.wait_response(&id.to_string(), budget) {
            Some(r) => match r.error {
                Some(e) if e.message.contains("panicked") => ("panic".into(), None),
                Some(_) => ("ok".into(), None),
                None => ("ok".into(), r.result),
            },
            None => ("hang".into(), None),
        }
    };
    let (r, fmt) = ask(&mut c, "textDocument/formatting", json!({"textDocument":{"uri":u},"options":{"tabSize":2,"insertSpaces":true}}));
    res.push(("lsp:didChange+formatting".to_string(), r.clone()));
    // did the edit arrive? (a panic while handling the notification loses it silently)
    if r == "ok" {
        let got = fmt.as_ref().and_then(|v| v.as_array()).and_then(|a| a.first()).and_then(|e| e["newText"].as_str()).unwrap_or("");
        if got.trim() == "# placeholder" && text.trim() != "# placeholder" {
            res.push(("lsp:didChange".to_string(), "panic".to_string()));
        }
    }
    if r == "hang" {
        return res;
    }
    for m in ["textDocument/documentSymbol", "textDocument/inlayHint", "textDocument/references", "textDocument/completion"] {
        if res.iter().any(|(_, r)| r == "hang") {
            return res;
        }
        let p = json!({"textDocument":{"uri":u},"position":{"line":0,"character":0},"range":{"start":{"line":0,"character":0},"end":{"line":100000,"character":0}},"context":{"includeDeclaration":false}});
        res.push((format!("lsp:{}", m), ask(&mut c, m, p).0));
    }
    res.push(("lsp:workspace/symbol".to_string(), ask(&mut c, "workspace/symbol", json!({"query":""})).0));
    let lines: Vec<&str> = text.lines().collect();
    let nlines = lines.len().min(60);
    let mut worst: HashMap<String, String> = HashMap::new();
    let mut note = |k: &str, r: String, worst: &mut HashMap<String, String>| {
        let e = worst.entry(k.to_string()).or_insert("ok".into());
        if r != "ok" && *e == "ok" {
            *e = r;
        }
    };
    for line in 0..nlines + 2 {
        let len = lines.get(line).map(|l| l.encode_utf16().count()).unwrap_or(0) as u64;
        for ch in [0, len / 2, len, len + 5] {
            for m in ["textDocument/definition", "textDocument/prepareRename"] {
                let (r, _) = ask(&mut c, m, json!({"textDocument":{"uri":u},"position":{"line":line,"character":ch}}));
                note(m, r, &mut worst);
            }
            let (r, _) = ask(&mut c, "textDocument/rename", json!({"textDocument":{"uri":u},"position":{"line":line,"character":ch},"newName":"zz"}));
            note("textDocument/rename", r, &mut worst);
        }
        if worst.values().any(|v| v == "hang") {
            break;
        }
        let (r, acts) = ask(&mut c, "textDocument/codeAction", json!({"textDocument":{"uri":u},"range":{"start":{"line":line,"character":0},"end":{"line":line,"character":0}},"context":{"diagnostics":[]}}));
        note("textDocument/codeAction", r, &mut worst);
        for a in acts.and_then(|v| v.as_array().cloned()).unwrap_or_default() {
            let (r, _) = ask(&mut c, "codeAction/resolve", a.clone());
            note(&format!("codeAction/resolve:{}", a["kind"].as_str().unwrap_or("")), r, &mut worst);
        }
        if t0.elapsed() > budget * 3 {
            // enough positions probed for this text (each request has its own budget; slow is not hung)
            break;
        }
    }
    let mut w: Vec<(String, String)> = worst.into_iter().map(|(k, v)| (format!("lsp:{}", k), v)).collect();
    w.sort();
    res.extend(w);
    if res.iter().any(|(_, r)| r == "hang") {
        return res;
    }
    let exit = c.exit_and_join(Duration::from_secs(10));
    res.push(("lsp:exit".to_string(), if exit == Some(true) { "ok".into() } else { "panic".into() }));
    res
}

fn lib_ops(text: &str) -> Vec<(String, String)> {
    let mut res = vec![];
    let t = text.to_string();
    let r = catch(std::panic::AssertUnwindSafe(|| {
        let mut state: HashMap<String, String> = HashMap::new();
        state.insert("k".into(), t.clone());
        state.insert("other".into(), "# Other\n\n[k](k)\n".into());
        let g = Graph::import(&state, MarkdownOptions::default());
        let _ = g.export();
        let _ = g.paths();
    }));
    res.push(("graph:import+export+paths".to_string(), if r.is_ok() { "ok".into() } else { "panic".into() }));
    let t = text.to_string();
    let r = catch(std::panic::AssertUnwindSafe(|| {
        let mut state: HashMap<String, String> = HashMap::new();
        state.insert("k".into(), "# old\n".into());
        let mut db = Database::new(state, false, MarkdownOptions::default());
        db.update_document(Key::from_file_name("k"), t.clone());
        db.update_document(Key::from_file_name("k"), t.clone());
        db.insert_document(Key::from_file_name("new"), t.clone());
        let _ = db.global_search("");
        let _ = db.global_search("a");
        let _ = db.graph().to_markdown(&Key::from_file_name("k"));
    }));
    res.push(("database:update+insert+search".to_string(), if r.is_ok() { "ok".into() } else { "panic".into() }));
    res
}

/// child: `vh total-run <texts.ndjson> <out.ndjson> <from index> <budget ms>`
pub fn cmd_run(args: &[String]) -> i32 {
    if std::env::var("VH_DEBUG").is_err() { std::panic::set_hook(Box::new(|_| {})); }
    let from: usize = args[2].parse().unwrap_or(0);
    let budget = Duration::from_millis(args[3].parse().unwrap_or(20000));
    let f = std::fs::File::open(&args[0]).expect("texts");
    let mut out = std::fs::OpenOptions::new().create(true).append(true).open(&args[1]).expect("out");
    for (i, line) in std::io::BufReader::new(f).lines().enumerate() {
        if i < from {
            continue;
        }
        let v: Value = serde_json::from_str(&line.unwrap()).unwrap();
        let text = v["text"].as_str().unwrap_or("").to_string();
        // announce the text first: if the process dies, this is the text it died on
        writeln!(out, "{}", json!({"ev":"Begin","i":i})).unwrap();
        out.flush().unwrap();
        let t0 = Instant::now();
        // library-level operations under the same budget: a rendering that never ends must not hang the harness
        let (tx, rx) = std::sync::mpsc::channel();
        let t2 = text.clone();
        std::thread::Builder::new().stack_size(8 * 1024 * 1024).spawn(move || { let _ = tx.send(lib_ops(&t2)); }).unwrap();
        let mut ops = match rx.recv_timeout(budget) {
            Ok(o) => o,
            Err(_) => vec![("graph/database operations".to_string(), "hang".to_string())],
        };
        let lib_hung = ops.iter().any(|(_, r)| r == "hang");
        if !lib_hung {
            ops.extend(lsp_ops(&text, budget));
        }
        let hung = ops.iter().any(|(_, r)| r == "hang");
        let bad: Vec<Value> = ops.iter().filter(|(_, r)| r != "ok").map(|(o, r)| json!([o, r])).collect();
        writeln!(out, "{}", json!({"ev":"Total","i":i,"id":v["id"],"bad":bad,"ops":ops.len(),"ms":t0.elapsed().as_millis() as u64})).unwrap();
        out.flush().unwrap();
        if hung {
            // a thread of the code under test is still spinning: leave it behind with this process
            std::process::exit(3);
        }
    }
    0
}
