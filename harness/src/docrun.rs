//! E-doc: render TLC-generated abstract documents, run the real formatting routes,
//! project the outputs and record events for the TLC judge (C01, C02, C03, C07).

use std::collections::HashMap;
use std::io::{BufRead, Write};
use std::time::Duration;

use liwe::graph::Graph;
use liwe::markdown::MarkdownReader;
use liwe::model::config::{Configuration, MarkdownOptions};
use liwe::model::Key;
use serde_json::{json, Value};

use crate::absdoc::*;
use crate::project::project;
use crate::render::{render, variants, Variant};
use crate::router::{fmt_params, Client};

pub fn catch<T, F: FnOnce() -> T + std::panic::UnwindSafe>(f: F) -> Result<T, String> {
    std::panic::catch_unwind(f).map_err(|e| {
        if let Some(s) = e.downcast_ref::<&str>() {
            s.to_string()
        } else if let Some(s) = e.downcast_ref::<String>() {
            s.clone()
        } else {
            "panic".to_string()
        }
    })
}

pub fn opts(ext: &str) -> MarkdownOptions {
    MarkdownOptions { refs_extension: ext.to_string() }
}

/// format through Graph::from_markdown / to_markdown
pub fn fmt_graph(text: &str, ext: &str) -> Result<String, String> {
    let t = text.to_string();
    let e = ext.to_string();
    catch(move || {
        let mut g = Graph::new_with_options(opts(&e));
        g.from_markdown(Key::from_file_name("k"), &t, MarkdownReader::new());
        g.to_markdown(&Key::from_file_name("k"))
    })
}

/// format through Graph::import / export inside a small library
pub fn fmt_library(text: &str, ext: &str) -> Result<String, String> {
    let t = text.to_string();
    let e = ext.to_string();
    catch(move || {
        let mut state: HashMap<String, String> = HashMap::new();
        state.insert("k".into(), t);
        state.insert("other".into(), "# Other\n\ntext\n".into());
        state.insert("d/sub".into(), "para only\n".into());
        let g = Graph::import(&state, opts(&e));
        g.export().get("k").cloned().unwrap_or_default()
    })
}

/// format through update_key of an existing library
pub fn fmt_update(text: &str, ext: &str) -> Result<String, String> {
    let t = text.to_string();
    let e = ext.to_string();
    catch(move || {
        let mut state: HashMap<String, String> = HashMap::new();
        state.insert("k".into(), "# Old\n\nold text\n".into());
        state.insert("other".into(), "# Other\n\ntext\n".into());
        let mut g = Graph::import(&state, opts(&e));
        g.update_key(Key::from_file_name("k"), &t);
        g.to_markdown(&Key::from_file_name("k"))
    })
}

struct Pending {
    case: Value,
    variant: String,
    text: String,
    intended: Doc,
}

/// LSP formatting of a batch of texts on one server: returns per text Ok(new text) | Err(what)
pub fn fmt_lsp_batch(texts: &[String], ext: &str) -> Vec<Result<String, String>> {
    let mut state: HashMap<String, String> = HashMap::new();
    for (i, t) in texts.iter().enumerate() {
        state.insert(format!("n{}", i), t.clone());
    }
    state.insert("other".into(), "# Other\n\ntext\n".into());
    let mut cfg = Configuration::default();
    cfg.markdown = opts(ext);
    let mut client = Client::start(state, cfg);
    let mut out = vec![];
    for i in 0..texts.len() {
        let id = format!("{}", i + 1);
        client.send_req(&id, "textDocument/formatting", fmt_params(&format!("n{}", i)));
    }
    for i in 0..texts.len() {
        let id = format!("{}", i + 1);
        match client.wait_response(&id, Duration::from_secs(60)) {
            Some(r) => {
                if r.error.is_some() {
                    out.push(Err("error-response".to_string()));
                } else {
                    let t = r
                        .result
                        .as_ref()
                        .and_then(|v| v.as_array())
                        .and_then(|a| a.first())
                        .and_then(|e| e.get("newText"))
                        .and_then(|t| t.as_str())
                        .map(|s| s.to_string());
                    out.push(t.ok_or("malformed-response".to_string()));
                }
            }
            None => out.push(Err("no-response".to_string())),
        }
    }
    let _ = client.exit_and_join(Duration::from_secs(10));
    out
}

fn obs_of(res: &Result<String, String>) -> (Value, String) {
    match res {
        Ok(t) => (json!(project(t)), "ok".to_string()),
        Err(e) => (Value::Null, format!("panic:{}", e.chars().take(80).collect::<String>().replace('"', "'"))),
    }
}

/// `vh doc-replay <vectors.ndjson> <events.ndjson> <detail.ndjson> [--shard i/n] [--variants a,b] [--routes graph,library,update,lsp] [--ext .md]`
pub fn cmd_replay(args: &[String]) -> i32 {
    let inp = &args[0];
    let mut shard = (0usize, 1usize);
    let mut vnames: Vec<String> = vec!["loose-atx".into(), "tight-setext".into()];
    let mut routes: Vec<String> = vec!["graph".into(), "library".into(), "lsp".into()];
    let mut exts: Vec<String> = vec!["".into()];
    let mut i = 3;
    while i < args.len() {
        match args[i].as_str() {
            "--shard" => {
                let p: Vec<usize> = args[i + 1].split('/').map(|s| s.parse().unwrap()).collect();
                shard = (p[0], p[1]);
                i += 1;
            }
            "--variants" => {
                vnames = args[i + 1].split(',').map(|s| s.to_string()).collect();
                i += 1;
            }
            "--routes" => {
                routes = args[i + 1].split(',').map(|s| s.to_string()).collect();
                i += 1;
            }
            "--ext" => {
                exts = args[i + 1].split(',').map(|s| s.to_string()).collect();
                i += 1;
            }
            _ => {}
        }
        i += 1;
    }
    std::panic::set_hook(Box::new(|_| {}));
    let vs: Vec<Variant> = variants().into_iter().filter(|v| vnames.contains(&v.name)).collect();
    let f = std::fs::File::open(inp).expect("vectors");
    let mut ev = std::io::BufWriter::new(std::fs::File::create(&args[1]).expect("events"));
    let mut det = std::io::BufWriter::new(std::fs::File::create(&args[2]).expect("detail"));
    let mut n_cases = 0usize;
    let mut n_rejects = 0usize;
    let mut n_rendered = 0usize;
    let mut n_events = 0usize;
    let mut pending: Vec<Pending> = vec![];

    let mut flush = |pending: &mut Vec<Pending>, ev: &mut std::io::BufWriter<std::fs::File>, det: &mut std::io::BufWriter<std::fs::File>, n_events: &mut usize| {
        for ext in exts.iter() {
            // which texts can be loaded at all (a text that panics at import would take the whole server down)
            let mut results: Vec<HashMap<String, (Result<String, String>, Option<bool>)>> = vec![];
            for p in pending.iter() {
                let mut m = HashMap::new();
                for r in routes.iter() {
                    let f: fn(&str, &str) -> Result<String, String> = match r.as_str() {
                        "graph" => fmt_graph,
                        "library" => fmt_library,
                        "update" => fmt_update,
                        _ => continue,
                    };
                    let out = f(&p.text, ext);
                    let same2 = out.as_ref().ok().map(|o| f(o, ext).as_ref().ok() == Some(o));
                    m.insert(r.clone(), (out, same2));
                }
                results.push(m);
            }
            if routes.iter().any(|r| r == "lsp") {
                let loadable: Vec<usize> = (0..pending.len())
                    .filter(|i| fmt_library(&pending[*i].text, ext).is_ok())
                    .collect();
                let texts: Vec<String> = loadable.iter().map(|i| pending[*i].text.clone()).collect();
                let outs = fmt_lsp_batch(&texts, ext);
                // second pass: format the outputs again on a fresh server (didChange(previous result) ; formatting)
                let ok_idx: Vec<usize> = (0..outs.len()).filter(|j| outs[*j].is_ok()).collect();
                let texts2: Vec<String> = ok_idx.iter().map(|j| outs[*j].clone().unwrap()).collect();
                let loadable2: Vec<usize> = (0..texts2.len()).filter(|j| fmt_library(&texts2[*j], ext).is_ok()).collect();
                let outs2 = fmt_lsp_batch(&loadable2.iter().map(|j| texts2[*j].clone()).collect::<Vec<_>>(), ext);
                let mut same: HashMap<usize, bool> = HashMap::new();
                for (n, j) in loadable2.iter().enumerate() {
                    same.insert(ok_idx[*j], outs2[n].as_ref().ok() == Some(&texts2[*j]));
                }
                for (j, i) in loadable.iter().enumerate() {
                    results[*i].insert("lsp".into(), (outs[j].clone(), same.get(&j).cloned()));
                }
                for i in 0..pending.len() {
                    if !loadable.contains(&i) {
                        results[i].insert("lsp".into(), (Err("server cannot load the note".into()), None));
                    }
                }
            }
            for (p, m) in pending.iter().zip(results.iter()) {
                // one event per distinct observation of this (case, variant)
                let mut seen: Vec<(Value, String, Option<bool>)> = vec![];
                let mut names: Vec<String> = m.keys().cloned().collect();
                names.sort();
                for r in names {
                    let (res, same2) = &m[&r];
                    let (obs, status) = obs_of(res);
                    let key = (obs.clone(), status.clone(), *same2);
                    let first = !seen.contains(&key);
                    if first {
                        seen.push(key);
                        writeln!(
                            ev,
                            "{}",
                            json!({"ev":"Format","case":p.case,"variant":p.variant,"route":r,"ext":ext,"in":p.intended,
                                   "features":features(&p.intended),
                                   "obs":if obs.is_null() { json!({"meta":"","blocks":[]}) } else { obs.clone() },
                                   "res":status,"same2":same2.unwrap_or(true),"has_obs":!obs.is_null()})
                        )
                        .unwrap();
                        *n_events += 1;
                    }
                    writeln!(
                        det,
                        "{}",
                        json!({"case":p.case,"variant":p.variant,"route":r,"ext":ext,"text":p.text,"out":res.as_ref().ok(),
                               "err":res.as_ref().err(),"same2":same2})
                    )
                    .unwrap();
                }
            }
        }
        pending.clear();
    };

    for (ln, line) in std::io::BufReader::new(f).lines().enumerate() {
        let line = line.unwrap();
        if line.trim().is_empty() || ln % shard.1 != shard.0 {
            continue;
        }
        let v: Value = serde_json::from_str(&line).expect("vector json");
        let doc: Doc = serde_json::from_value(v["doc"].clone()).expect("doc");
        let intended = norm_doc(&doc);
        n_cases += 1;
        let mut texts_seen: Vec<String> = vec![];
        for var in vs.iter() {
            let text = render(&doc, var);
            if texts_seen.contains(&text) {
                continue;
            }
            let back = project(&text);
            if back != intended {
                n_rejects += 1;
                writeln!(det, "{}", json!({"case":v["id"],"variant":var.name,"reject":true,"text":text,"projected":back})).unwrap();
                continue;
            }
            texts_seen.push(text.clone());
            n_rendered += 1;
            pending.push(Pending { case: v["id"].clone(), variant: var.name.clone(), text, intended: intended.clone() });
        }
        if pending.len() >= 300 {
            flush(&mut pending, &mut ev, &mut det, &mut n_events);
        }
    }
    flush(&mut pending, &mut ev, &mut det, &mut n_events);
    ev.flush().unwrap();
    det.flush().unwrap();
    println!("{}", json!({"cases":n_cases,"rendered":n_rendered,"render_rejects":n_rejects,"events":n_events}));
    0
}

/// `vh doc-project <file>`: print the projection of a Markdown file (debugging aid)
pub fn cmd_project(args: &[String]) -> i32 {
    let t = std::fs::read_to_string(&args[0]).expect("file");
    println!("{}", serde_json::to_string_pretty(&project(&t)).unwrap());
    0
}
