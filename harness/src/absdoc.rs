//! The abstract document vocabulary shared by TLC (spec/Doc.tla), the renderer and the
//! projector.  See spec/Doc.tla for the meaning of the fields.

use serde::{Deserialize, Serialize};

#[derive(Serialize, Deserialize, Clone, PartialEq, Debug, Default)]
pub struct Tok {
    pub k: String,
    #[serde(default)]
    pub s: String,
    #[serde(default)]
    pub c: Vec<Tok>,
    #[serde(default)]
    pub x: String,
}

#[derive(Serialize, Deserialize, Clone, PartialEq, Debug, Default)]
pub struct Block {
    pub k: String,
    #[serde(default)]
    pub l: u32,
    #[serde(default)]
    pub t: Vec<Tok>,
    #[serde(default)]
    pub c: Vec<Block>,
    #[serde(default)]
    pub items: Vec<Vec<Block>>,
    #[serde(default)]
    pub rows: Vec<Vec<Vec<Tok>>>,
    #[serde(default)]
    pub x: String,
}

#[derive(Serialize, Deserialize, Clone, PartialEq, Debug, Default)]
pub struct Doc {
    #[serde(default)]
    pub meta: String,
    #[serde(default)]
    pub blocks: Vec<Block>,
}

pub fn w(s: &str) -> Tok {
    Tok { k: "W".into(), s: s.into(), ..Default::default() }
}
pub fn sp() -> Tok {
    Tok { k: "SP".into(), ..Default::default() }
}
pub fn tok(k: &str) -> Tok {
    Tok { k: k.into(), ..Default::default() }
}

impl Block {
    pub fn new(k: &str) -> Block {
        Block { k: k.into(), ..Default::default() }
    }
}

/// normal form used for comparing an intended abstract document with a projection:
/// runs of separators collapse to the strongest one (HB > SB > SP), leading/trailing
/// separators of an inline sequence are dropped, adjacent words are merged
pub fn norm_toks(toks: &[Tok]) -> Vec<Tok> {
    let mut out: Vec<Tok> = vec![];
    for t in toks {
        let mut t = t.clone();
        norm_dest(&mut t);
        t.c = norm_toks(&t.c);
        let is_sep = |k: &str| k == "SP" || k == "SB" || k == "HB";
        if is_sep(&t.k) {
            if let Some(last) = out.last_mut() {
                if is_sep(&last.k) {
                    let rank = |k: &str| match k {
                        "HB" => 3,
                        "SB" => 2,
                        _ => 1,
                    };
                    if rank(&t.k) > rank(&last.k) {
                        last.k = t.k.clone();
                    }
                    continue;
                }
            } else {
                continue; // leading separator
            }
            out.push(t);
        } else if t.k == "W" {
            if let Some(last) = out.last_mut() {
                if last.k == "W" {
                    last.s.push_str(&t.s);
                    continue;
                }
            }
            if !t.s.is_empty() {
                out.push(t);
            }
        } else {
            out.push(t);
        }
    }
    while out.last().map(|t| t.k == "SP" || t.k == "SB" || t.k == "HB").unwrap_or(false) {
        out.pop();
    }
    out
}

pub fn norm_block(b: &Block) -> Block {
    norm_block_with(b, true)
}

/// `merge`: apply the C07 merging of items that start with a list (off when the parsed structure itself
/// is what is compared: the builder binding of spec/Builder.tla)
pub fn norm_block_with(b: &Block, merge: bool) -> Block {
    let mut b = b.clone();
    if b.k != "Code" && b.k != "Html" {
        b.t = norm_toks(&b.t);
    }
    b.c = b.c.iter().map(|x| norm_block_with(x, merge)).collect();
    b.items = b.items.iter().map(|it| it.iter().map(|x| norm_block_with(x, merge)).collect()).collect();
    if merge && (b.k == "BL" || b.k == "OL") {
        b.items = merge_leading_lists(b.items);
    }
    b.rows = b.rows.iter().map(|r| r.iter().map(|c| norm_toks(c)).collect()).collect();
    b
}

/// C07: "an item that starts with a list is merged into the enclosing list".  The items of the leading
/// list take the item's place and what follows that list belongs to the last of them; a leading list
/// of empty items carries nothing, the item is then what follows it.  (Applied to the intended and to
/// the observed document alike.)
/// a block that is not written at all: dropped raw HTML, or a quote / list holding nothing but such blocks
fn carries_nothing(b: &Block) -> bool {
    match b.k.as_str() {
        "Html" => true,
        "Q" => b.c.iter().all(carries_nothing),
        "BL" | "OL" => b.items.iter().all(|it| it.iter().all(carries_nothing)),
        _ => false,
    }
}

fn merge_leading_lists(items: Vec<Vec<Block>>) -> Vec<Vec<Block>> {
    let mut out: Vec<Vec<Block>> = vec![];
    for it in items {
        let mut it = it;
        loop {
            // raw HTML blocks are dropped (documented): an item whose list comes right after them starts with that list
            let html = it.iter().take_while(|b| carries_nothing(b)).count();
            if html > 0 && it.get(html).map(|f| f.k == "BL" || f.k == "OL").unwrap_or(false) {
                it = it[html..].to_vec();
            }
            let leading = it.first().map(|f| f.k == "BL" || f.k == "OL").unwrap_or(false);
            if !leading {
                out.push(it);
                break;
            }
            let inner = it[0].items.clone(); // already merged: norm_block works bottom-up
            let rest: Vec<Block> = it[1..].to_vec();
            if inner.iter().all(|x| x.iter().all(carries_nothing)) {
                it = rest;
                if it.is_empty() {
                    out.push(it);
                    break;
                }
                continue;
            }
            let at = out.len();
            out.extend(inner);
            // (an item that holds only dropped HTML carries nothing either)
            if let Some(last) = (at..out.len()).rev().find(|i| out[*i].iter().any(|b| !carries_nothing(b))) {
                out[last].extend(rest);
            }
            break;
        }
    }
    out
}

pub fn norm_doc_raw(d: &Doc) -> Doc {
    Doc { meta: d.meta.clone(), blocks: d.blocks.iter().map(|b| norm_block_with(b, false)).collect() }
}

pub fn norm_doc(d: &Doc) -> Doc {
    Doc { meta: d.meta.clone(), blocks: d.blocks.iter().map(norm_block).collect() }
}

/// destination of an internal link without a trailing ".md" (C06: the configured extension
/// may be added or removed; everything else of the destination is content)
pub fn norm_dest(t: &mut Tok) {
    if t.k == "Link" && (t.x == "inline" || t.x == "wiki" || t.x == "piped") {
        while t.s.ends_with(".md") {
            t.s.truncate(t.s.len() - 3);
        }
        if t.x == "wiki" {
            // the text of a bare wiki link is its destination
            t.c = vec![];
        }
    }
    for c in t.c.iter_mut() {
        norm_dest(c);
    }
}

fn walk_toks<F: FnMut(&Tok)>(toks: &[Tok], f: &mut F) {
    for t in toks {
        f(t);
        walk_toks(&t.c, f);
    }
}

fn walk_blocks<F: FnMut(&Block, bool)>(bs: &[Block], f: &mut F) {
    for b in bs {
        f(b, false);
        walk_blocks(&b.c, f);
        for it in b.items.iter() {
            walk_blocks(it, f);
        }
    }
}

const SPECIAL: &str = "*_`[]<>&#+-=|\\~";

fn special_word(s: &str) -> bool {
    if s.chars().any(|c| SPECIAL.contains(c)) {
        return true;
    }
    // "1." / "12)" look like ordered-list markers
    let digits = s.trim_end_matches(|c| c == '.' || c == ')');
    digits.len() < s.len() && !digits.is_empty() && digits.chars().all(|c| c.is_ascii_digit())
}

/// syntactic features of an abstract document that the guards of known findings refer to
pub fn features(d: &Doc) -> Vec<String> {
    let mut f: std::collections::BTreeSet<String> = Default::default();
    let mut on_tok = |t: &Tok, in_cell: bool, f: &mut std::collections::BTreeSet<String>| {
        match t.k.as_str() {
            // (table cells are written through an escaping writer: there F-C01-1 applies only to what that
            // writer leaves alone - angle brackets and ampersands, i.e. entities and inline HTML)
            "W" if special_word(&t.s) && (!in_cell || t.s.chars().any(|c| c == '<' || c == '>' || c == '&')) => {
                f.insert("special-word".into());
            }
            "Code" if t.s.contains('`') => {
                f.insert("code-backtick".into());
            }
            "Link" | "Img" if t.s.contains(' ') || t.s.contains('(') || t.s.contains(')') || t.s.contains('<') => {
                f.insert("dest-angle".into());
            }
            "Html" if in_cell => {
                f.insert("cell-html".into());
            }
            _ => {}
        }
    };
    walk_blocks(&d.blocks, &mut |b: &Block, _| {
        // the body of a code block is not inline text: F-C01-1 (verbatim text) does not apply to it
        if b.k != "Code" {
            walk_toks(&b.t, &mut |t| on_tok(t, false, &mut f));
        }
        for r in b.rows.iter() {
            for c in r.iter() {
                walk_toks(c, &mut |t| on_tok(t, true, &mut f));
            }
        }
    });
    f.into_iter().collect()
}
