//! E-addr / C14: a file on disk, its file:// URI and its key must name the same note.
//! Every TLC-generated (file name classes, directory, base path) case is materialised in a
//! temp directory, loaded by a real server started on that path, and addressed through URIs
//! built the way an editor builds them (Url::from_file_path).

use std::io::{BufRead, Write};
use std::path::{Path, PathBuf};
use std::time::Duration;

use lsp_types::Url;
use serde_json::{json, Value};

use crate::router::Client;

fn ch(class: &str) -> &'static str {
    match class {
        "plain" => "p",
        "space" => " ",
        "uni" => "é",
        "pct" => "%",
        "hash" => "#",
        "qmark" => "?",
        "plus" => "+",
        "amp" => "&",
        "dot" => ".",
        "colon" => ":",
        "bslash" => "\\",
        "bracket" => "[",
        "tilde" => "~",
        _ => "x",
    }
}

fn furl(p: &Path) -> String {
    Url::from_file_path(p).map(|u| u.to_string()).unwrap_or_default()
}

const T: Duration = Duration::from_secs(20);

fn req(c: &mut Client, id: &mut i64, method: &str, params: Value) -> Option<Value> {
    *id += 1;
    let ids = id.to_string();
    c.send_req(&ids, method, params);
    let r = c.wait_response(&ids, T)?;
    if r.error.is_some() {
        return Some(json!({"__error": true}));
    }
    r.result
}

fn run_case(case: &Value, root: &Path) -> Value {
    let name: String = format!(
        "n{}z",
        case["name"].as_array().unwrap().iter().map(|c| ch(c.as_str().unwrap())).collect::<String>()
    );
    let dir = case["dir"].as_str().unwrap_or("");
    let base_kind = case["base"].as_str().unwrap_or("plain");
    let base_name = match base_kind {
        "with space" => "my lib",
        "ünï" => "bïb",
        _ => "lib",
    };
    let base: PathBuf = root.join(if base_kind == "symlink" { "lnk" } else { base_name });
    let real: PathBuf = root.join("real-lib");
    if base_kind == "symlink" {
        // the library is reached through a symbolic link; the editor uses the link's path
        let _ = std::fs::remove_file(&base);
        let _ = std::fs::remove_dir_all(&real);
        std::fs::create_dir_all(&real).unwrap();
        std::os::unix::fs::symlink(&real, &base).unwrap();
    } else {
        let _ = std::fs::remove_dir_all(&base);
    }
    let tdir = if dir.is_empty() { base.clone() } else { base.join(dir) };
    std::fs::create_dir_all(&tdir).unwrap();
    let target = tdir.join(format!("{}.md", name));
    let linker = base.join("linker.md");
    std::fs::write(&target, "# Target\n\nold\n\n## Sub\n\ntext\n").unwrap();
    let rel = if dir.is_empty() { name.clone() } else { format!("{}/{}", dir, name) };
    // inside <...> a backslash is an escape character: write it escaped
    std::fs::write(&linker, format!("# Linker\n\n[t](<{}>)\n", rel.replace('\\', "\\\\"))).unwrap();
    let mut base_str = base.to_string_lossy().to_string();
    if base_kind == "trailing-slash" {
        base_str.push('/');
    }
    if base_kind == "dotdot" {
        // the library path as `library.path = "../lib"` gives it: <cwd>/../lib, not normalised
        base_str = format!("{}/../lib", base_str);
    }
    let mut c = Client::start_on_path(&base_str, Default::default());
    let mut id = 0i64;
    let turi = furl(&target);
    let luri = furl(&linker);
    let count = |c: &mut Client, id: &mut i64| -> i64 {
        req(c, id, "textDocument/completion", json!({"textDocument":{"uri":luri},"position":{"line":0,"character":0}}))
            .and_then(|v| v.get("items").and_then(|i| i.as_array()).map(|a| a.len() as i64))
            .unwrap_or(-1)
    };
    let n0 = count(&mut c, &mut id);
    let refs = req(&mut c, &mut id, "textDocument/references",
        json!({"textDocument":{"uri":turi},"position":{"line":0,"character":0},"context":{"includeDeclaration":false}}));
    if std::env::var("VH_DEBUG").is_ok() {
        eprintln!("refs: {:?}", refs);
    }
    let refs_ok = refs.as_ref().and_then(|v| v.as_array()).map(|a| a.len() == 1 && a[0]["uri"] == luri.as_str()).unwrap_or(false);
    let def = req(&mut c, &mut id, "textDocument/definition", json!({"textDocument":{"uri":luri},"position":{"line":2,"character":1}}));
    let def_ok = def.as_ref().map(|v| v["uri"] == turi.as_str()).unwrap_or(false);
    c.send_notif("textDocument/didChange", json!({"textDocument":{"uri":turi,"version":2},"contentChanges":[{"text":"# Target\n\nnew\n\n## Sub\n\ntext\n"}]}));
    let n1 = count(&mut c, &mut id);
    if std::env::var("VH_DEBUG").is_ok() {
        let items = req(&mut c, &mut id, "textDocument/completion", json!({"textDocument":{"uri":luri},"position":{"line":0,"character":0}}));
        eprintln!("items: {:?}", items.map(|v| v["items"].as_array().map(|a| a.iter().map(|i| i["insertText"].clone()).collect::<Vec<_>>())));
    }
    let fmt = req(&mut c, &mut id, "textDocument/formatting", json!({"textDocument":{"uri":turi},"options":{"tabSize":2,"insertSpaces":true}}));
    let fmt_new = fmt.as_ref().and_then(|v| v.as_array()).and_then(|a| a.first()).and_then(|e| e["newText"].as_str()).map(|t| t.contains("new")).unwrap_or(false);
    let lf = req(&mut c, &mut id, "textDocument/formatting", json!({"textDocument":{"uri":luri},"options":{"tabSize":2,"insertSpaces":true}}));
    let link_titled = lf.as_ref().and_then(|v| v.as_array()).and_then(|a| a.first()).and_then(|e| e["newText"].as_str()).map(|t| t.contains("[Target](")).unwrap_or(false);
    let sym = req(&mut c, &mut id, "workspace/symbol", json!({"query":"Target"}));
    let sym_ok = sym.as_ref().and_then(|v| v.as_array()).map(|a| a.iter().any(|s| s["location"]["uri"] == turi.as_str())).unwrap_or(false);
    // a code action on the note (extract its sub-section): the workspace edit must address the note's file
    let acts = req(&mut c, &mut id, "textDocument/codeAction",
        json!({"textDocument":{"uri":turi},"range":{"start":{"line":4,"character":0},"end":{"line":4,"character":0}},"context":{"diagnostics":[]}}));
    let extract = acts.as_ref().and_then(|v| v.as_array()).and_then(|a| a.iter().find(|x| x["kind"] == "refactor.extract.section")).cloned();
    let resolved = match extract {
        Some(a) => req(&mut c, &mut id, "codeAction/resolve", a),
        None => None,
    };
    let edit_uris: Vec<String> = resolved
        .as_ref()
        .and_then(|v| v["edit"]["documentChanges"].as_array())
        .map(|a| {
            a.iter()
                .filter_map(|ch| ch["textDocument"]["uri"].as_str().or(ch["uri"].as_str()).map(|s| s.to_string()))
                .collect()
        })
        .unwrap_or_default();
    let act_ok = edit_uris.iter().any(|u| u == turi.as_str());
    let exit = c.exit_and_join(Duration::from_secs(10));
    if base_kind == "symlink" {
        let _ = std::fs::remove_file(&base);
        let _ = std::fs::remove_dir_all(&real);
    } else {
        let _ = std::fs::remove_dir_all(&base);
    }
    json!({"ev":"Uri","name":case["name"],"dir":dir,"base":base_kind,"file":target.to_string_lossy(),"uri":turi,
           "n0":n0,"n1":n1,"refs_ok":refs_ok,"def_ok":def_ok,"fmt_new":fmt_new,"link_titled":link_titled,"sym_ok":sym_ok,"act_ok":act_ok,"edit_uris":edit_uris,
           "clean_exit": exit == Some(true)})
}

/// `vh uri-replay <cases.ndjson> <events.ndjson> <scratch dir> [--shard i/n]`
pub fn cmd_replay(args: &[String]) -> i32 {
    let mut shard = (0usize, 1usize);
    if args.len() > 4 && args[3] == "--shard" {
        let p: Vec<usize> = args[4].split('/').map(|s| s.parse().unwrap()).collect();
        shard = (p[0], p[1]);
    }
    std::panic::set_hook(Box::new(|_| {}));
    std::fs::create_dir_all(&args[2]).unwrap();
    let root = std::fs::canonicalize(&args[2]).unwrap().join(format!("s{}", shard.0));
    std::fs::create_dir_all(&root).unwrap();
    let f = std::fs::File::open(&args[0]).expect("cases");
    let mut out = std::io::BufWriter::new(std::fs::File::create(&args[1]).expect("events"));
    let mut n = 0;
    for (ln, line) in std::io::BufReader::new(f).lines().enumerate() {
        let line = line.unwrap();
        if line.trim().is_empty() || ln % shard.1 != shard.0 {
            continue;
        }
        let c: Value = serde_json::from_str(&line).unwrap();
        let mut e = run_case(&c, &root);
        e["case"] = json!(ln);
        writeln!(out, "{}", e).unwrap();
        n += 1;
    }
    out.flush().unwrap();
    let _ = std::fs::remove_dir_all(&root);
    println!("{}", json!({"cases": n}));
    0
}
