//! E-router: replay of TLC-generated schedules on the real `iwes` router through the
//! cfg(iwe_verif) pause hooks, and free-running request sequences (C11, C12).
//!
//! The harness renders, runs and records; it does not judge.  Every schedule becomes a
//! list of events (ndjson) that TLC validates against Trace_Router*.tla.

use std::collections::{BTreeMap, HashMap};
use std::io::{BufRead, Write};
use std::sync::{Arc, Condvar, Mutex};
use std::time::{Duration, Instant};

use iwes::router::verif::{self, Point};
use iwes::{main_loop, ServerParams};
use lsp_server::{Connection, Message, Notification, Request, RequestId, Response};
use serde_json::{json, Value};

// ---------------------------------------------------------------------------------------
// shared recorder / gates
// ---------------------------------------------------------------------------------------

#[derive(Default)]
struct Worker {
    at: Option<&'static str>, // gate the worker is blocked at
    permits: u32,
    arrivals: u32,
    tid: Option<String>,
    done: bool, // passed its final gate
}

#[derive(Default)]
struct Shared {
    events: Vec<Value>,
    workers: HashMap<String, Worker>,
    free_run: bool,
    loop_events: u64, // count of loop-thread events (ReqTaken, NotifBegin, NotifDone, LoopPanic, Refs, LoopExit)
    last_refs: Option<usize>,
}

struct Rec {
    m: Mutex<Shared>,
    cv: Condvar,
}

fn rid(id: &RequestId) -> String {
    let s = id.to_string();
    s.trim_matches('"').to_string()
}

/// request / notification ids are written as JSON integers (TLC compares them with integers)
fn num(s: &str) -> Value {
    s.parse::<i64>().map(|n| json!(n)).unwrap_or(json!(s))
}

fn my_tid() -> Option<String> {
    std::fs::read_link("/proc/thread-self")
        .ok()
        .and_then(|p| p.file_name().map(|f| f.to_string_lossy().to_string()))
}

impl Rec {
    fn log(&self, v: Value) {
        let mut s = self.m.lock().unwrap();
        s.events.push(v);
        self.cv.notify_all();
    }

    fn gate(&self, id: &RequestId, name: &'static str, last: bool) {
        let id = rid(id);
        let mut s = self.m.lock().unwrap();
        s.events.push(json!({"ev":"Gate","r":num(&id),"at":name}));
        {
            let w = s.workers.entry(id.clone()).or_default();
            w.at = Some(name);
            w.arrivals += 1;
            if w.tid.is_none() {
                w.tid = my_tid();
            }
        }
        self.cv.notify_all();
        loop {
            if s.free_run {
                break;
            }
            let w = s.workers.get_mut(&id).unwrap();
            if w.permits > 0 {
                w.permits -= 1;
                break;
            }
            s = self.cv.wait(s).unwrap();
        }
        let w = s.workers.get_mut(&id).unwrap();
        w.at = None;
        if last {
            w.done = true;
        }
        self.cv.notify_all();
    }

    fn hook(&self, p: &Point) {
        match p {
            Point::ReqTaken(id) => self.loop_ev(json!({"ev":"ReqTaken","r":num(&rid(id))})),
            Point::WStart(id) => self.gate(id, "WStart", false),
            Point::WComputed(id) => self.gate(id, "WComputed", false),
            Point::WReturn(id) => self.gate(id, "WReturn", true),
            Point::WPanic(id) => self.gate(id, "WPanic", true),
            Point::NotifBegin(m) => self.loop_ev(json!({"ev":"NotifBegin","method":m})),
            Point::NotifDone => self.loop_ev(json!({"ev":"NotifDone"})),
            Point::LoopPanic(m) => self.loop_ev(json!({"ev":"LoopPanic","msg":m})),
            Point::LoopExit => self.loop_ev(json!({"ev":"LoopExit"})),
            Point::NotifWaiting => self.loop_ev(json!({"ev":"NotifWaiting"})),
            Point::Refs(n) => {
                let mut s = self.m.lock().unwrap();
                s.last_refs = Some(*n);
                s.loop_events += 1;
                self.cv.notify_all();
            }
            #[allow(unreachable_patterns)]
            other => self.loop_ev(json!({"ev":"Other","dbg":format!("{:?}", other)})),
        }
    }

    fn loop_ev(&self, v: Value) {
        let mut s = self.m.lock().unwrap();
        s.events.push(v);
        s.loop_events += 1;
        self.cv.notify_all();
    }

    /// wait until `f` holds on the shared state or the deadline passes
    fn wait_until<F: Fn(&Shared) -> bool>(&self, f: F, timeout: Duration) -> bool {
        let deadline = Instant::now() + timeout;
        let mut s = self.m.lock().unwrap();
        loop {
            if f(&s) {
                return true;
            }
            let now = Instant::now();
            if now >= deadline {
                return false;
            }
            let (g, _) = self.cv.wait_timeout(s, deadline - now).unwrap();
            s = g;
        }
    }

    fn reset(&self) {
        let mut s = self.m.lock().unwrap();
        *s = Shared::default();
    }
}

fn recorder() -> &'static Arc<Rec> {
    use std::sync::OnceLock;
    static R: OnceLock<Arc<Rec>> = OnceLock::new();
    R.get_or_init(|| {
        let r = Arc::new(Rec {
            m: Mutex::new(Shared::default()),
            cv: Condvar::new(),
        });
        let r2 = r.clone();
        verif::install(Some(Arc::new(move |p: &Point| r2.hook(p))));
        r
    })
}

// ---------------------------------------------------------------------------------------
// client side
// ---------------------------------------------------------------------------------------

pub const BASE: &str = "/basepath";

pub fn uri(key: &str) -> String {
    format!("file://{}/{}.md", BASE, key)
}

pub struct Client {
    pub conn: Connection,
    server: Option<std::thread::JoinHandle<Result<(), String>>>,
    pub responses: BTreeMap<String, Vec<Response>>,
    pub server_requests: Vec<Request>,
}

impl Client {
    pub fn start(state: HashMap<String, String>, configuration: liwe::model::config::Configuration) -> Client {
        Client::start_named(state, configuration, None)
    }

    /// `client_name`: what the editor calls itself in `initialize` (the server treats "helix" specially)
    pub fn start_named(state: HashMap<String, String>, configuration: liwe::model::config::Configuration, client_name: Option<String>) -> Client {
        let (server_conn, client_conn) = Connection::memory();
        let th = std::thread::Builder::new()
            .name("iwes-loop".into())
            .spawn(move || {
                main_loop(
                    server_conn,
                    ServerParams {
                        state: Some(state),
                        sequential_ids: Some(true),
                        client_name,
                        configuration,
                        base_path: BASE.to_string(),
                    },
                )
                .map_err(|e| e.to_string())
            })
            .unwrap();
        Client {
            conn: client_conn,
            server: Some(th),
            responses: BTreeMap::new(),
            server_requests: vec![],
        }
    }

    pub fn start_on_path(path: &str, configuration: liwe::model::config::Configuration) -> Client {
        let (server_conn, client_conn) = Connection::memory();
        let p = path.to_string();
        let th = std::thread::Builder::new()
            .name("iwes-loop".into())
            .spawn(move || {
                main_loop(
                    server_conn,
                    ServerParams {
                        state: None,
                        sequential_ids: None,
                        client_name: None,
                        configuration,
                        base_path: p,
                    },
                )
                .map_err(|e| e.to_string())
            })
            .unwrap();
        Client {
            conn: client_conn,
            server: Some(th),
            responses: BTreeMap::new(),
            server_requests: vec![],
        }
    }

    pub fn send_req(&self, id: &str, method: &str, params: Value) {
        let _ = self.conn.sender.send(Message::Request(Request {
            id: RequestId::from(id.to_string()),
            method: method.to_string(),
            params,
        }));
    }

    pub fn send_notif(&self, method: &str, params: Value) {
        let _ = self.conn.sender.send(Message::Notification(Notification {
            method: method.to_string(),
            params,
        }));
    }

    /// drain whatever the server has written so far; returns newly seen responses
    pub fn drain(&mut self, wait: Duration) -> Vec<Response> {
        let mut out = vec![];
        let mut first = true;
        loop {
            let r = if first && wait > Duration::ZERO {
                self.conn.receiver.recv_timeout(wait).ok()
            } else {
                self.conn.receiver.try_recv().ok()
            };
            first = false;
            match r {
                Some(Message::Response(resp)) => {
                    self.responses.entry(rid(&resp.id)).or_default().push(resp.clone());
                    out.push(resp);
                }
                Some(Message::Request(req)) => self.server_requests.push(req),
                Some(Message::Notification(_)) => {}
                None => break,
            }
        }
        out
    }

    /// wait for a response to `id` (keeps everything else that arrives)
    pub fn wait_response(&mut self, id: &str, timeout: Duration) -> Option<Response> {
        let deadline = Instant::now() + timeout;
        loop {
            if let Some(v) = self.responses.get(id) {
                if let Some(r) = v.first() {
                    return Some(r.clone());
                }
            }
            let now = Instant::now();
            if now >= deadline {
                return None;
            }
            self.drain((deadline - now).min(Duration::from_millis(50)));
        }
    }

    /// send `exit`, join the loop thread; Ok(true) = main_loop returned Ok
    pub fn exit_and_join(&mut self, timeout: Duration) -> Option<bool> {
        self.send_notif("exit", Value::Null);
        let deadline = Instant::now() + timeout;
        let th = self.server.take()?;
        while !th.is_finished() {
            if Instant::now() >= deadline {
                return None;
            }
            std::thread::sleep(Duration::from_millis(1));
        }
        match th.join() {
            Ok(Ok(())) => Some(true),
            _ => Some(false),
        }
    }
}

pub fn fmt_params(key: &str) -> Value {
    json!({"textDocument":{"uri":uri(key)},"options":{"tabSize":2,"insertSpaces":true}})
}

pub fn did_change_params(key: &str, text: &str) -> Value {
    json!({"textDocument":{"uri":uri(key),"version":1},"contentChanges":[{"text":text}]})
}

fn version_of(resp: &Response) -> i64 {
    // formatting answers [ {range, newText: "# vN\n"} ]
    resp.result
        .as_ref()
        .and_then(|v| v.as_array())
        .and_then(|a| a.first())
        .and_then(|e| e.get("newText"))
        .and_then(|t| t.as_str())
        .and_then(|t| t.trim().trim_start_matches("# v").parse::<i64>().ok())
        .unwrap_or(-1)
}

// ---------------------------------------------------------------------------------------
// schedule replay
// ---------------------------------------------------------------------------------------

/// Waits are event-driven; this bound only turns a dead server into an observation
/// ("Stuck") instead of a hung harness.
const PROMPT: Duration = Duration::from_secs(10);
/// Fallback for designs that do not report "waiting": silence for this long after a
/// notification was begun while workers are alive is read as "the loop is waiting".
const BLOCK_PROBE: Duration = Duration::from_millis(300);

enum Queued {
    Req(String),
    Not(usize), // ordinal of the notification (1-based)
    Exit,
}

struct Replay {
    rec: Arc<Rec>,
    client: Client,
    keys: Vec<String>,
    unconfirmed: std::collections::VecDeque<Queued>,
    nots_sent: usize,
    req_sent: Vec<String>,
    stuck: bool,
}

fn count(s: &Shared, ev: &str) -> usize {
    s.events.iter().filter(|e| e["ev"] == ev).count()
}

fn outcomes(s: &Shared) -> usize {
    count(s, "NotifDone") + count(s, "LoopPanic")
}

impl Replay {
    fn log(&self, v: Value) {
        self.rec.log(v);
    }

    fn stuck(&mut self, what: String) {
        if !self.stuck {
            self.log(json!({"ev":"Stuck","what":what}));
        }
        self.stuck = true;
    }

    fn note_responses(&mut self, wait: Duration) {
        for r in self.client.drain(wait) {
            let id = rid(&r.id);
            self.log(json!({"ev":"Resp","r":num(&id),"seen":version_of(&r),"err":r.error.is_some()}));
        }
    }

    fn workers_alive(&self) -> usize {
        let s = self.rec.m.lock().unwrap();
        count(&s, "ReqTaken") - count(&s, "WGone")
    }

    fn step_send_req(&mut self, r: &str, key: &str, cls: &str) {
        let (method, params) = match cls {
            "ok" => ("textDocument/formatting", fmt_params(key)),
            "panic" => ("textDocument/formatting", fmt_params("no-such-note")),
            "unknown" => ("textDocument/verifUnknownMethod", json!({})),
            "exec" => ("workspace/executeCommand", json!({"command":"verif-none","arguments":[]})),
            "shutdown" => ("shutdown", Value::Null),
            _ => ("textDocument/formatting", fmt_params(key)),
        };
        self.log(json!({"ev":"SendReq","r":num(r),"key":key,"cls":cls}));
        self.req_sent.push(r.to_string());
        self.client.send_req(r, method, params);
        self.unconfirmed.push_back(Queued::Req(r.to_string()));
    }

    fn step_send_not(&mut self, n: &str, key: &str) {
        self.log(json!({"ev":"SendNot","n":num(n),"key":key}));
        let text = format!("# v{}\n", n);
        // full-text sync: a notification may carry several change events, each with the whole text; the last
        // one is the text the editor has.  Every second notification is sent that way.
        // the version numbers go down from one notification to the next (as after a close and reopen, or an undo in
        // some editors): the server syncs full texts and has no business comparing them
        let version = 100 - num(n).as_i64().unwrap_or(1);
        let params = if num(n).as_i64().unwrap_or(1) % 2 == 0 {
            json!({"textDocument":{"uri":uri(key),"version":version},"contentChanges":[{"text":"# v9999\n"},{"text":text}]})
        } else {
            json!({"textDocument":{"uri":uri(key),"version":version},"contentChanges":[{"text":text}]})
        };
        self.client.send_notif("textDocument/didChange", params);
        self.nots_sent += 1;
        self.unconfirmed.push_back(Queued::Not(self.nots_sent));
    }

    /// the model's loop takes the oldest message: wait until the real loop has done so
    fn step_take(&mut self) {
        match self.unconfirmed.pop_front() {
            Some(Queued::Req(r)) => {
                let ok = self.rec.wait_until(
                    |s| s.events.iter().any(|e| e["ev"] == "ReqTaken" && e["r"] == num(&r)),
                    PROMPT,
                );
                if !ok {
                    self.stuck(format!("request {} was not taken by the loop", r));
                }
            }
            Some(Queued::Not(k)) => {
                let ok = self.rec.wait_until(|s| count(s, "NotifBegin") >= k, PROMPT);
                if !ok {
                    self.stuck(format!("notification #{} was not begun by the loop", k));
                    return;
                }
                // the loop now applies, fails or waits; all designs we know report at once
                let alive = self.workers_alive() > 0;
                let got = self.rec.wait_until(
                    |s| outcomes(s) >= k || count(s, "NotifWaiting") > 0 && waiting_for(s, k),
                    if alive { BLOCK_PROBE } else { PROMPT },
                );
                if !got && !alive {
                    self.stuck(format!("notification #{} neither applied nor failed on an idle server", k));
                }
                // (--dwell-ms) keep the workers where they are for a while: the notification has to survive
                // however long the earlier requests take
                let dwell = DWELL_MS.load(std::sync::atomic::Ordering::Relaxed);
                // (also when the loop reports the notification as handled at once: a design that puts the edit
                // aside instead of waiting must still end up with the last text)
                if alive && dwell > 0 {
                    self.log(json!({"ev":"Dwell","ms":dwell}));
                    std::thread::sleep(Duration::from_millis(dwell));
                }
            }
            Some(Queued::Exit) | None => {}
        }
    }

    /// the model says the loop holds the only reference now: the outcome must come
    fn step_apply(&mut self, n: &str) {
        let k: usize = n.parse().unwrap_or(0);
        let ok = self.rec.wait_until(|s| outcomes(s) >= k, PROMPT);
        if !ok {
            self.stuck(format!("notification #{} got no outcome although no worker is alive", k));
        }
    }

    /// one worker step: release the gate the worker is at and wait for its next arrival
    fn step_worker(&mut self, r: &str) {
        let rr = r.to_string();
        let ok = self.rec.wait_until(
            |s| s.workers.get(&rr).map(|w| w.at.is_some() || w.done).unwrap_or(false),
            PROMPT,
        );
        if !ok {
            self.stuck(format!("worker {} is not at any point", r));
            return;
        }
        if self.rec.m.lock().unwrap().workers.get(&rr).map(|w| w.at.is_none()).unwrap_or(true) {
            return; // the worker has already left (the model had more steps for it than the code)
        }
        let (at, arrivals, tid) = {
            let s = self.rec.m.lock().unwrap();
            let w = s.workers.get(&rr).unwrap();
            (w.at, w.arrivals, w.tid.clone())
        };
        let last = matches!(at, Some("WReturn") | Some("WPanic"));
        {
            let mut s = self.rec.m.lock().unwrap();
            s.workers.get_mut(&rr).unwrap().permits += 1;
            self.rec.cv.notify_all();
        }
        if last {
            // the Router clone is dropped when the closure ends, i.e. before the thread does
            if let Some(tid) = tid {
                let p = format!("/proc/self/task/{}", tid);
                let deadline = Instant::now() + PROMPT;
                while std::path::Path::new(&p).exists() {
                    if Instant::now() > deadline {
                        self.stuck(format!("worker {} thread did not end", r));
                        break;
                    }
                    std::thread::yield_now();
                }
            }
            self.log(json!({"ev":"WGone","r":num(r)}));
        } else {
            let ok = self.rec.wait_until(
                |s| s.workers.get(&rr).map(|w| w.arrivals > arrivals).unwrap_or(false),
                PROMPT,
            );
            if !ok {
                self.stuck(format!("worker {} did not reach its next point", r));
            }
        }
        self.note_responses(Duration::ZERO);
    }

    fn finish(&mut self) -> Value {
        // open all gates, let everything drain
        {
            let mut s = self.rec.m.lock().unwrap();
            s.free_run = true;
            self.rec.cv.notify_all();
        }
        // FIFO probe on the loop: when it reports a count of 1 every earlier message has
        // been handled and every worker has released its clone
        let deadline = Instant::now() + PROMPT;
        let mut quiet = false;
        while Instant::now() < deadline && !self.stuck {
            {
                let mut s = self.rec.m.lock().unwrap();
                s.last_refs = None;
            }
            self.client.send_notif("$/verif/refs", Value::Null);
            if !self.rec.wait_until(|s| s.last_refs.is_some(), PROMPT) {
                break;
            }
            if self.rec.m.lock().unwrap().last_refs == Some(1) {
                quiet = true;
                break;
            }
            std::thread::yield_now();
        }
        if !quiet {
            self.stuck("server did not become quiescent".to_string());
        }
        // all workers are gone: a response that is not here now never comes
        self.note_responses(Duration::from_millis(1));
        self.log(json!({"ev":"Quiescent"}));
        if !self.stuck {
            for (i, k) in self.keys.clone().iter().enumerate() {
                let id = format!("{}", 1000 + i);
                self.client.send_req(&id, "textDocument/formatting", fmt_params(k));
                let resp = self.client.wait_response(&id, PROMPT);
                let ver = resp.as_ref().map(version_of).unwrap_or(-2);
                self.log(json!({"ev":"Final","key":k,"ver":ver}));
            }
            let exit = self.client.exit_and_join(PROMPT);
            self.log(json!({"ev":"Exit","ok": exit == Some(true)}));
        }
        let s = self.rec.m.lock().unwrap();
        json!(s.events.clone())
    }
}

pub static DWELL_MS: std::sync::atomic::AtomicU64 = std::sync::atomic::AtomicU64::new(0);

/// the k-th notification is the one the loop reported waiting for
fn waiting_for(s: &Shared, k: usize) -> bool {
    count(s, "NotifBegin") == k && outcomes(s) == k - 1
        && s.events.iter().rev().take_while(|e| e["ev"] != "NotifBegin").any(|e| e["ev"] == "NotifWaiting")
}

pub fn replay_schedule(sched: &Value, keys: &[String]) -> (Value, bool) {
    let rec = recorder().clone();
    rec.reset();
    let state: HashMap<String, String> = keys.iter().map(|k| (k.clone(), "# v0\n".to_string())).collect();
    let client = Client::start(state, Default::default());
    let mut rp = Replay {
        rec,
        client,
        keys: keys.to_vec(),
        unconfirmed: Default::default(),
        nots_sent: 0,
        req_sent: vec![],
        stuck: false,
    };
    for st in sched.as_array().cloned().unwrap_or_default() {
        match st[0].as_str().unwrap_or("") {
            "req" => rp.step_send_req(st[1].as_str().unwrap(), st[2].as_str().unwrap(), st[3].as_str().unwrap()),
            "not" => rp.step_send_not(st[1].as_str().unwrap(), st[2].as_str().unwrap()),
            "take" => rp.step_take(),
            "apply" => rp.step_apply(st[1].as_str().unwrap()),
            "w" => rp.step_worker(st[1].as_str().unwrap()),
            "exit" => rp.unconfirmed.push_back(Queued::Exit),
            _ => {}
        }
        rp.note_responses(Duration::ZERO);
        if rp.stuck {
            break;
        }
    }
    let events = rp.finish();
    (events, rp.stuck)
}

/// `vh router-replay <schedules.ndjson> <out.ndjson> [--keys a,b] [--shard i/n]`
pub fn cmd_replay(args: &[String]) -> i32 {
    let inp = &args[0];
    let outp = &args[1];
    let mut keys = vec!["a".to_string()];
    let mut shard = (0usize, 1usize);
    let mut i = 2;
    while i < args.len() {
        match args[i].as_str() {
            "--keys" => {
                keys = args[i + 1].split(',').map(|s| s.to_string()).collect();
                i += 1;
            }
            "--shard" => {
                let p: Vec<usize> = args[i + 1].split('/').map(|s| s.parse().unwrap()).collect();
                shard = (p[0], p[1]);
                i += 1;
            }
            "--dwell-ms" => {
                DWELL_MS.store(args[i + 1].parse().unwrap(), std::sync::atomic::Ordering::Relaxed);
                i += 1;
            }
            _ => {}
        }
        i += 1;
    }
    std::panic::set_hook(Box::new(|_| {})); // panics of the code under test are data
    let f = std::fs::File::open(inp).expect("schedules");
    let mut out = std::io::BufWriter::new(std::fs::File::create(outp).expect("out"));
    let mut n = 0usize;
    let mut tool_errors = 0usize;
    for (ln, line) in std::io::BufReader::new(f).lines().enumerate() {
        let line = line.unwrap();
        if line.trim().is_empty() || ln % shard.1 != shard.0 {
            continue;
        }
        let sched: Value = serde_json::from_str(&line).expect("schedule json");
        if tool_errors >= 3 {
            // a server that gets stuck is reported by the first cases; do not spend minutes on the rest
            continue;
        }
        // (a replay that trips over the server's behaviour - a message the schedule did not expect, a closed
        // channel - must not take the harness down: it is a stuck schedule, reported as such)
        let (events, stuck) = match std::panic::catch_unwind(std::panic::AssertUnwindSafe(|| replay_schedule(&sched, &keys))) {
            Ok(r) => r,
            Err(_) => (json!([{"ev":"Stuck","what":"the replay could not be carried through (the server did something the schedule has no step for)"}]), true),
        };
        if stuck {
            tool_errors += 1;
        }
        writeln!(out, "{}", json!({"ev":"Reset","case": ln, "sched": sched})).unwrap();
        for e in events.as_array().unwrap() {
            writeln!(out, "{}", e).unwrap();
        }
        n += 1;
    }
    writeln!(out, "{}", json!({"ev":"End"})).unwrap();
    out.flush().unwrap();
    eprintln!("router-replay: {} schedules, {} stuck", n, tool_errors);
    0
}

// ---------------------------------------------------------------------------------------
// request sequences (C12): free-running server, hooks only log
// ---------------------------------------------------------------------------------------

const NOTE1: &str = "# Title one\n\npara with [link](2) inline\n\n[two](2)\n\n[missing](missing)\n\n## Sub section\n\n- item a\n- item b\n\ntext after\n";
const NOTE1_OTHER: &str = "# Title changed\n\nnew para\n\n[two](2)\n";
const NOTE2: &str = "# Two\n\nbody\n";
const NOTE3: &str = "[two](2)\n\npara\n";
const NOTE4: &str = "# Four\n\n[up](../2)\n";

fn seq_state() -> HashMap<String, String> {
    let mut m = HashMap::new();
    m.insert("1".to_string(), NOTE1.to_string());
    m.insert("2".to_string(), NOTE2.to_string());
    m.insert("3".to_string(), NOTE3.to_string());
    m.insert("d/4".to_string(), NOTE4.to_string());
    m.insert("p".to_string(), "# v0\n".to_string());
    m
}

fn seq_config() -> liwe::model::config::Configuration {
    let mut c = liwe::model::config::Configuration::default();
    c.models.insert(
        "default".to_string(),
        liwe::model::config::Model {
            api_key_env: "".to_string(),
            base_url: "http://127.0.0.1:9".to_string(),
            name: "none".to_string(),
            max_tokens: None,
            max_completion_tokens: None,
            temperature: None,
        },
    );
    c
}

fn uri_of(class: &str) -> String {
    match class {
        "known" => uri("1"),
        "unknown" => uri("no-such-note"),
        "outside" => "file:///elsewhere/x.md".to_string(),
        _ => uri("1"),
    }
}

fn pos_of(class: &str) -> Value {
    match class {
        "link" => json!({"line":2,"character":12}),
        "text" => json!({"line":2,"character":2}),
        "pastcol" => json!({"line":2,"character":500}),
        "pastline" => json!({"line":400,"character":0}),
        _ => json!({"line":0,"character":0}),
    }
}

fn line_of(class: &str) -> (String, u32) {
    match class {
        "section" => ("1".into(), 0),
        "para" => ("1".into(), 2),
        "ref" => ("1".into(), 4),
        "dangling" => ("1".into(), 6),
        "subsection" => ("1".into(), 8),
        "item" => ("1".into(), 10),
        "pastend" => ("1".into(), 400),
        "topref" => ("3".into(), 0),
        "toppara" => ("3".into(), 2),
        _ => ("1".into(), 0),
    }
}

fn code_action_params(u: &str, line: u32) -> Value {
    json!({"textDocument":{"uri":u},"range":{"start":{"line":line,"character":0},"end":{"line":line,"character":0}},
           "context":{"diagnostics":[]}})
}

/// canonical form of a response for comparison across runs: arrays are compared as
/// multisets (orderings are the business of C16/C18), the request id is left out
fn canon(v: &Value) -> Value {
    match v {
        Value::Array(a) => {
            let mut items: Vec<Value> = a.iter().map(canon).collect();
            items.sort_by_key(|x| x.to_string());
            Value::Array(items)
        }
        Value::Object(o) => {
            let mut m = serde_json::Map::new();
            let mut keys: Vec<&String> = o.keys().collect();
            keys.sort();
            for k in keys {
                m.insert(k.clone(), canon(&o[k]));
            }
            Value::Object(m)
        }
        other => other.clone(),
    }
}

fn digest(r: &Response) -> String {
    use std::hash::{Hash, Hasher};
    let v = json!({"result": r.result.as_ref().map(canon), "error": r.error.as_ref().map(|e| e.code)});
    let mut h = std::collections::hash_map::DefaultHasher::new();
    v.to_string().hash(&mut h);
    format!("{:016x}", h.finish())
}

struct SeqRun {
    rec: Arc<Rec>,
    client: Client,
    next_id: i64,
    ids: HashMap<String, Value>, // data class -> node id learnt in the warm-up
    stuck: bool,
    expect: String,              // digest the next request's response must have ("" = unknown)
    last_digest: String,
}

impl SeqRun {
    fn log(&self, v: Value) {
        self.rec.log(v);
    }

    /// send one request and wait until its worker thread is gone; returns the response (if any)
    fn request(&mut self, method: &str, params: Value, cls: &str, key: &str) -> Option<Response> {
        let id = self.next_id;
        self.next_id += 1;
        let ids = id.to_string();
        let expect = std::mem::take(&mut self.expect);
        self.log(json!({"ev":"SendReq","r":id,"key":key,"cls":cls,"method":method,"expect":expect}));
        self.client.send_req(&ids, method, params);
        let ok = self
            .rec
            .wait_until(|s| s.workers.get(&ids).map(|w| w.done).unwrap_or(false), PROMPT);
        if !ok {
            self.stuck = true;
            self.log(json!({"ev":"Stuck","what":format!("worker of request {} ({}) did not finish", id, method)}));
            return None;
        }
        // the Router clone (and the sender in it) is released when the thread ends
        let tid = self.rec.m.lock().unwrap().workers.get(&ids).and_then(|w| w.tid.clone());
        if let Some(tid) = tid {
            let p = format!("/proc/self/task/{}", tid);
            let deadline = Instant::now() + PROMPT;
            while std::path::Path::new(&p).exists() && Instant::now() < deadline {
                std::thread::yield_now();
            }
        }
        let mut mine = None;
        for r in self.client.drain(Duration::ZERO) {
            let rid_ = rid(&r.id);
            self.log(json!({"ev":"Resp","r":num(&rid_),"seen":version_of(&r),"err":r.error.is_some(),"digest":digest(&r)}));
            if rid_ == ids {
                self.last_digest = digest(&r);
                mine = Some(r);
            }
        }
        mine
    }

    fn notify(&mut self, method: &str, params: Value) {
        self.log(json!({"ev":"Note","method":method}));
        self.client.send_notif(method, params);
        // FIFO: the next request is taken after this notification was handled
    }

    fn step(&mut self, st: &Value) {
        let m = st["m"].as_str().unwrap_or("");
        let u = st["u"].as_str().unwrap_or("");
        let a = st["a"].as_str().unwrap_or("");
        let x = st["x"].as_str().unwrap_or("");
        let td = json!({"uri": uri_of(u)});
        match m {
            "textDocument/formatting" if u == "malformed-params" => {
                self.request(m, json!({"bogus":1}), "any", "1");
            }
            "textDocument/formatting" => {
                self.request(m, json!({"textDocument":td,"options":{"tabSize":2,"insertSpaces":true}}), "any", "1");
            }
            "textDocument/documentSymbol" | "textDocument/inlineValues" => {
                self.request(m, json!({"textDocument":td,"range":{"start":{"line":0,"character":0},"end":{"line":1,"character":0}},
                    "context":{"frameId":0,"stoppedLocation":{"start":{"line":0,"character":0},"end":{"line":1,"character":0}}}}), "any", "1");
            }
            "textDocument/inlayHint" => {
                self.request(m, json!({"textDocument":td,"range":{"start":{"line":0,"character":0},"end":{"line":100,"character":0}}}), "any", "1");
            }
            "textDocument/references" => {
                self.request(m, json!({"textDocument":td,"position":{"line":0,"character":0},"context":{"includeDeclaration":false}}), "any", "1");
            }
            "textDocument/completion" => {
                self.request(m, json!({"textDocument":td,"position":{"line":2,"character":0}}), "any", "1");
            }
            "textDocument/definition" | "textDocument/prepareRename" => {
                self.request(m, json!({"textDocument":td,"position":pos_of(a)}), "any", "1");
            }
            "textDocument/rename" => {
                let new_name = match x {
                    "free" => "fresh",
                    "taken" => "2",
                    _ => "d/fresh",
                };
                self.request(m, json!({"textDocument":td,"position":pos_of(a),"newName":new_name}), "any", "1");
            }
            "textDocument/codeAction" => {
                let (k, line) = line_of(a);
                let uu = if u == "unknown" { uri_of("unknown") } else { uri(&k) };
                self.request(m, code_action_params(&uu, line), "any", "1");
            }
            "codeAction/resolve" => {
                let data = match x {
                    "huge" => json!(987654321u64),
                    "none" => Value::Null,
                    "notanumber" => json!("abc"),
                    c => self.ids.get(c).cloned().unwrap_or(json!(0)),
                };
                let mut action = json!({"title":"t","kind":a});
                if !data.is_null() {
                    action["data"] = data;
                }
                self.request(m, action, "any", "1");
            }
            "workspace/symbol" => {
                self.request(m, json!({"query":a}), "any", "1");
            }
            "completionItem/resolve" => {
                self.request(m, json!({"label":"x"}), "any", "1");
            }
            "workspace/executeCommand" => {
                let args = if x == "good" {
                    json!([{"new_key":"gen1","prompt_key":"2","target_key":"1"}])
                } else {
                    json!([])
                };
                self.request(m, json!({"command":a,"arguments":args}), "any", "1");
            }
            "shutdown" => {
                self.request(m, Value::Null, "any", "1");
            }
            "notify/didChange" => {
                let text = if a == "same" { NOTE1 } else { NOTE1_OTHER };
                self.notify("textDocument/didChange", json!({"textDocument":{"uri":uri_of(u),"version":2},"contentChanges":[{"text":text}]}));
            }
            "notify/didSave" => {
                self.notify("textDocument/didSave", json!({"textDocument":{"uri":uri_of(u)},"text":NOTE1_OTHER}));
            }
            "notify/unknown" => {
                self.notify("textDocument/verifUnknownNotification", json!({}));
            }
            other => {
                self.request(other, json!({}), "any", "1");
            }
        }
    }
}

pub fn run_sequence(seq: &Value, baseline: &HashMap<String, String>) -> (Value, String) {
    let rec = recorder().clone();
    rec.reset();
    rec.m.lock().unwrap().free_run = true;
    let client = Client::start(seq_state(), seq_config());
    let mut run = SeqRun {
        rec,
        client,
        next_id: 1,
        ids: HashMap::new(),
        stuck: false,
        expect: String::new(),
        last_digest: String::new(),
    };
    // warm-up: learn the node ids behind the code actions offered on each kind of line
    for cls in ["section", "ref", "dangling", "item", "topref", "subsection"] {
        let (k, line) = line_of(cls);
        if let Some(r) = run.request("textDocument/codeAction", code_action_params(&uri(&k), line), "any", "1") {
            if let Some(d) = r
                .result
                .as_ref()
                .and_then(|v| v.as_array())
                .and_then(|a| a.first())
                .and_then(|a| a.get("data"))
            {
                run.ids.insert(cls.to_string(), d.clone());
            }
        }
    }
    run.log(json!({"ev":"WarmupDone","ids":run.ids.len()}));
    // requests do not change the library: as long as no edit notification was sent, the
    // answer to a request must be the one a fresh server gives to it (the baseline)
    let mut edited = false;
    let mut first_digest = String::new();
    for (i, st) in seq.as_array().cloned().unwrap_or_default().iter().enumerate() {
        if run.stuck {
            break;
        }
        let m = st["m"].as_str().unwrap_or("");
        if m.starts_with("notify/did") {
            edited = true;
        }
        if !edited && i > 0 {
            run.expect = baseline.get(&st.to_string()).cloned().unwrap_or_default();
        }
        run.last_digest.clear();
        run.step(st);
        if i == 0 {
            first_digest = run.last_digest.clone();
        }
    }
    if !run.stuck {
        // the probe: a request whose correct answer is known
        run.request("textDocument/formatting", fmt_params("p"), "ok", "p");
    }
    run.log(json!({"ev":"Quiescent"}));
    if !run.stuck {
        let exit = run.client.exit_and_join(PROMPT);
        run.log(json!({"ev":"Exit","ok": exit == Some(true)}));
    }
    let s = run.rec.m.lock().unwrap();
    (json!(s.events.clone()), first_digest)
}

/// `vh router-seq <sequences.ndjson> <out.ndjson> [--shard i/n] [--baseline f] [--emit-baseline f]`
pub fn cmd_seq(args: &[String]) -> i32 {
    let inp = &args[0];
    let outp = &args[1];
    let mut shard = (0usize, 1usize);
    let mut baseline: HashMap<String, String> = HashMap::new();
    let mut emit: Option<std::io::BufWriter<std::fs::File>> = None;
    let mut i = 2;
    while i < args.len() {
        if args[i] == "--shard" {
            let p: Vec<usize> = args[i + 1].split('/').map(|s| s.parse().unwrap()).collect();
            shard = (p[0], p[1]);
            i += 1;
        } else if args[i] == "--baseline" {
            for line in std::fs::read_to_string(&args[i + 1]).unwrap_or_default().lines() {
                if let Ok(v) = serde_json::from_str::<Value>(line) {
                    baseline.insert(v["elem"].to_string(), v["digest"].as_str().unwrap_or("").to_string());
                }
            }
            i += 1;
        } else if args[i] == "--emit-baseline" {
            emit = Some(std::io::BufWriter::new(std::fs::File::create(format!("{}.{}", args[i + 1], shard.0)).expect("baseline out")));
            i += 1;
        }
        i += 1;
    }
    std::panic::set_hook(Box::new(|_| {}));
    let f = std::fs::File::open(inp).expect("sequences");
    let mut out = std::io::BufWriter::new(std::fs::File::create(outp).expect("out"));
    let mut n = 0usize;
    for (ln, line) in std::io::BufReader::new(f).lines().enumerate() {
        let line = line.unwrap();
        if line.trim().is_empty() || ln % shard.1 != shard.0 {
            continue;
        }
        let seq: Value = serde_json::from_str(&line).expect("sequence json");
        let (events, first_digest) = run_sequence(&seq, &baseline);
        if let Some(e) = emit.as_mut() {
            if seq.as_array().map(|a| a.len()) == Some(1) && !first_digest.is_empty() {
                writeln!(e, "{}", json!({"elem": seq[0], "digest": first_digest})).unwrap();
            }
        }
        writeln!(out, "{}", json!({"ev":"Reset","case": ln, "seq": seq})).unwrap();
        for e in events.as_array().unwrap() {
            // gate events of free-running workers carry no information for the judge
            if e["ev"] == "Gate" || e["ev"] == "ReqTaken" {
                continue;
            }
            writeln!(out, "{}", e).unwrap();
        }
        n += 1;
    }
    writeln!(out, "{}", json!({"ev":"End"})).unwrap();
    out.flush().unwrap();
    if let Some(mut e) = emit {
        e.flush().unwrap();
    }
    eprintln!("router-seq: {} sequences", n);
    0
}
