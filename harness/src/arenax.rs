//! Arena binding (C20): histories generated from spec/Gen_Arena.tla are performed on a real
//! `Graph` (`update_key` on the Markdown of each model tree, then a patch graph built the way
//! formatting / rename / code actions build theirs), and the arena after every call is recorded
//! for spec/Trace_Arena.tla, which replays Arena!Update and compares node by node.

use std::io::{BufRead, Write};

use liwe::graph::{Graph, GraphContext};
use liwe::model::Key;
use serde::Deserialize;
use serde_json::{json, Value};

use crate::docrun::catch;

#[derive(Deserialize, Clone)]
struct Tree {
    k: String,
    c: Vec<Tree>,
    #[allow(dead_code)]
    #[serde(default)]
    md: Option<String>,
    /// the note a Reference node points to
    #[serde(default)]
    tgt: Option<i64>,
    /// the notes linked from the node's text
    #[serde(default)]
    refs: Vec<i64>,
}

fn links(t: &Tree) -> String {
    t.refs.iter().map(|k| format!(" [l](n{})", k)).collect()
}

#[derive(Deserialize)]
struct Hist {
    ops: Vec<Value>,
}

fn indent(lines: Vec<String>, first: &str, rest: &str) -> Vec<String> {
    lines
        .into_iter()
        .enumerate()
        .map(|(i, l)| {
            if i == 0 {
                format!("{}{}", first, l)
            } else if l.is_empty() {
                String::new()
            } else {
                format!("{}{}", rest, l)
            }
        })
        .collect()
}

/// Markdown of a sequence of sibling model nodes (blocks separated by blank lines)
fn blocks(ts: &[Tree], level: usize, n: &mut usize) -> Vec<String> {
    let mut out: Vec<String> = vec![];
    for (i, t) in ts.iter().enumerate() {
        if i > 0 {
            out.push(String::new());
        }
        *n += 1;
        let id = *n;
        match t.k.as_str() {
            "S" => {
                out.push(format!("{} h{}{}", "#".repeat(level), id, links(t)));
                if !t.c.is_empty() {
                    out.push(String::new());
                    out.extend(blocks(&t.c, level + 1, n));
                }
            }
            "L" => out.push(format!("p{}{}", id, links(t))),
            "R" => out.push(match t.tgt {
                Some(k) => format!("[r{}](n{})", id, k),
                None => format!("[r{}](x{})", id, id),
            }),
            "T" => {
                out.push(format!("| a{} | b |", id));
                out.push("| --- | --- |".to_string());
                out.push(format!("| c | d{} |", links(t)));
            }
            "Raw" => {
                out.push("```".to_string());
                out.push(format!("code{}", id));
                out.push("```".to_string());
            }
            "HR" => out.push("---".to_string()),
            "Q" => {
                for l in blocks(&t.c, level, n) {
                    out.push(if l.is_empty() { ">".to_string() } else { format!("> {}", l) });
                }
            }
            "BL" | "OL" => {
                let (first, rest) = if t.k == "BL" { ("- ", "  ") } else { ("1. ", "   ") };
                for (j, item) in t.c.iter().enumerate() {
                    if j > 0 {
                        out.push(String::new());
                    }
                    *n += 1;
                    let mut lines = vec![format!("i{}{}", *n, links(item))];
                    if !item.c.is_empty() {
                        lines.push(String::new());
                        lines.extend(blocks(&item.c, level, n));
                    }
                    out.extend(indent(lines, first, rest));
                }
            }
            other => panic!("unknown model kind {}", other),
        }
    }
    out
}

pub fn render_tree(t: &Tree) -> String {
    let mut n = 0;
    let mut s = blocks(&t.c, 1, &mut n).join("\n");
    if !s.is_empty() {
        s.push('\n');
    }
    s
}

fn kind_of(dbg: &str) -> &'static str {
    let name = dbg.split(|c: char| !c.is_alphanumeric()).next().unwrap_or("");
    match name {
        "Section" => "S",
        "Leaf" => "L",
        "Reference" => "R",
        "BulletList" => "BL",
        "OrderedList" => "OL",
        "Quote" => "Q",
        "Table" => "T",
        "Raw" => "Raw",
        "HorizontalRule" => "HR",
        "Document" => "D",
        "Empty" => "Empty",
        _ => "?",
    }
}

/// what the reference index answers for the notes 1, 2, 3 and the missing note 9 (sorted node ids)
fn index_answers(g: &Graph) -> Value {
    let v: Vec<Value> = [1i64, 2, 3, 9]
        .iter()
        .map(|k| {
            let key = Key::from_file_name(&format!("n{}", k));
            let mut b: Vec<u64> = g.get_block_references_to(&key);
            let mut i: Vec<u64> = g.get_inline_references_to(&key);
            b.sort();
            i.sort();
            json!({"k": k, "b": b, "i": i})
        })
        .collect();
    Value::Array(v)
}

fn snapshot(g: &Graph) -> (Value, Value) {
    let nodes: Vec<Value> = g
        .nodes()
        .iter()
        .map(|n| {
            if n.is_empty() {
                json!({"kind": "Empty", "prev": -1, "next": -1, "child": -1, "key": ""})
            } else {
                json!({
                    "kind": kind_of(&format!("{:?}", n)),
                    "prev": n.prev_id().map(|x| x as i64).unwrap_or(-1),
                    "next": n.next_id().map(|x| x as i64).unwrap_or(-1),
                    "child": n.child_id().map(|x| x as i64).unwrap_or(-1),
                    "key": n.key().map(|k| k.to_string()).unwrap_or_default(),
                })
            }
        })
        .collect();
    let mut keys: Vec<(i64, i64)> = g
        .keys()
        .iter()
        .map(|k| {
            (
                k.to_string().trim_start_matches('n').parse::<i64>().unwrap_or(-1),
                g.get_node_id(k).map(|x| x as i64).unwrap_or(-1),
            )
        })
        .collect();
    keys.sort();
    (
        Value::Array(nodes),
        Value::Array(keys.into_iter().map(|(k, r)| json!({"k": k, "root": r})).collect()),
    )
}

/// `vh arena-replay <histories.ndjson> <events.ndjson> [--shard i/n]`
pub fn cmd_replay(args: &[String]) -> i32 {
    let mut shard = (0usize, 1usize);
    let mut i = 2;
    while i < args.len() {
        if args[i] == "--shard" {
            let p: Vec<usize> = args[i + 1].split('/').map(|s| s.parse().unwrap()).collect();
            shard = (p[0], p[1]);
            i += 1;
        }
        i += 1;
    }
    let input = std::io::BufReader::new(std::fs::File::open(&args[0]).expect("histories"));
    let mut out = std::io::BufWriter::new(std::fs::File::create(&args[1]).expect("events"));
    for (hi, line) in input.lines().enumerate() {
        if hi % shard.1 != shard.0 {
            continue;
        }
        let line = line.unwrap();
        let h: Hist = serde_json::from_str(&line).expect("history");
        writeln!(out, "{}", json!({"ev": "reset", "hist": hi, "step": 0})).unwrap();
        let mut g = Graph::new();
        let mut ok = true;
        for (si, op) in h.ops.iter().enumerate() {
            let k = op["k"].as_i64().unwrap();
            let tree: Tree = serde_json::from_value(op["tree"].clone()).expect("tree");
            // a shape that only one particular source text produces carries that text itself
            let md = op["tree"]["md"].as_str().map(|s| s.to_string()).unwrap_or_else(|| render_tree(&tree));
            let key = Key::from_file_name(&format!("n{}", k));
            let r = catch(std::panic::AssertUnwindSafe(|| {
                g.update_key(key.clone(), &md);
            }));
            if r.is_err() {
                // a panic while writing is recorded as an arena the model cannot have
                writeln!(
                    out,
                    "{}",
                    json!({"ev": "update", "hist": hi, "step": si + 1, "k": k, "tree": op["tree"], "md": md,
                           "nodes": [{"kind": "panic", "prev": -1, "next": -1, "child": -1, "key": ""}], "keys": [], "index_panic": false, "index": []})
                )
                .unwrap();
                ok = false;
                break;
            }
            let (nodes, keys) = snapshot(&g);
            writeln!(
                out,
                "{}",
                {
                    // a panic while the index is asked is recorded, not fatal
                    let ix = catch(std::panic::AssertUnwindSafe(|| index_answers(&g)));
                    json!({"ev": "update", "hist": hi, "step": si + 1, "k": k, "tree": op["tree"], "md": md, "nodes": nodes, "keys": keys,
                           "index_panic": ix.is_err(), "index": ix.unwrap_or(json!([]))})
                }
            )
            .unwrap();
        }
        if ok {
            // the patch graph of formatting / rename / code actions: new_patch + build_key_from_iter of every note
            let r = catch(std::panic::AssertUnwindSafe(|| {
                let mut patch = g.new_patch();
                let mut ks = g.keys();
                ks.sort();
                for k in ks {
                    let tree = (&g).collect(&k);
                    patch.build_key_from_iter(&k, tree.iter());
                }
                snapshot(&patch)
            }));
            let (nodes, keys) = r.unwrap_or((json!([{"kind": "panic", "prev": -1, "next": -1, "child": -1, "key": ""}]), json!([])));
            writeln!(out, "{}", json!({"ev": "patch", "hist": hi, "step": h.ops.len() + 1, "nodes": nodes, "keys": keys})).unwrap();
            // a patch graph built from a tree that holds a whole note in the place of a block reference (the tree
            // 'Inline section' starts from): one per block reference of every note whose target exists
            let r = catch(std::panic::AssertUnwindSafe(|| {
                let mut out: Vec<(Value, Value)> = vec![];
                let mut ks = g.keys();
                ks.sort();
                for k in ks.iter() {
                    let tree = (&g).collect(k);
                    for id in g.get_block_references_in(k) {
                        let target = tree.find(id).filter(|t| t.is_reference()).map(|_| tree.reference_key(id));
                        if let Some(target) = target.filter(|t| (&g).get_node_id(t).is_some()) {
                            let inlined = tree.replace(id, &(&g).collect(&target));
                            let mut patch = g.new_patch();
                            patch.build_key_from_iter(k, inlined.iter());
                            out.push(snapshot(&patch));
                        }
                    }
                }
                out
            }));
            match r {
                Ok(list) => {
                    for (nodes, keys) in list {
                        writeln!(out, "{}", json!({"ev": "patch_inlined", "hist": hi, "step": h.ops.len() + 2, "nodes": nodes, "keys": keys})).unwrap();
                    }
                }
                Err(_) => {
                    writeln!(out, "{}", json!({"ev": "patch_inlined", "hist": hi, "step": h.ops.len() + 2, "nodes": [{"kind": "panic", "prev": -1, "next": -1, "child": -1, "key": ""}], "keys": []})).unwrap();
                }
            }
        }
    }
    out.flush().unwrap();
    0
}

/// `vh builder-replay <vectors.ndjson> <events.ndjson> [--shard i/n]`: every abstract document of
/// spec/MC_Builder.tla is written as Markdown (kept only when an independent parse of the text gives the
/// document back, items that start with a list unmerged), built by the real `Graph`, and the arena is recorded
/// for spec/Trace_Builder.tla, which builds the same document with the transcribed builder (Builder.tla).
pub fn cmd_builder(args: &[String]) -> i32 {
    use crate::absdoc::{norm_doc_raw, Doc};
    use crate::project::project_raw;
    use crate::render::{render, variants};
    let mut shard = (0usize, 1usize);
    let mut i = 2;
    while i < args.len() {
        if args[i] == "--shard" {
            let p: Vec<usize> = args[i + 1].split('/').map(|s| s.parse().unwrap()).collect();
            shard = (p[0], p[1]);
            i += 1;
        }
        i += 1;
    }
    std::panic::set_hook(Box::new(|_| {}));
    let input = std::io::BufReader::new(std::fs::File::open(&args[0]).expect("vectors"));
    let mut out = std::io::BufWriter::new(std::fs::File::create(&args[1]).expect("events"));
    let vs: Vec<_> = variants().into_iter().filter(|v| v.name == "loose-atx" || v.name == "tight-setext").collect();
    let (mut cases, mut built, mut rejects) = (0usize, 0usize, 0usize);
    for (ln, line) in input.lines().enumerate() {
        if ln % shard.1 != shard.0 {
            continue;
        }
        let line = line.unwrap();
        if line.trim().is_empty() {
            continue;
        }
        let v: Value = serde_json::from_str(&line).expect("vector json");
        let doc: Doc = serde_json::from_value(v["doc"].clone()).expect("doc");
        let intended = norm_doc_raw(&doc);
        cases += 1;
        let mut seen: Vec<String> = vec![];
        for var in vs.iter() {
            let text = render(&doc, var);
            if seen.contains(&text) {
                continue;
            }
            if project_raw(&text) != intended {
                rejects += 1;
                if std::env::var("VH_DEBUG").is_ok() {
                    eprintln!("REJECT case {} {}:\n{}", ln, var.name, text);
                }
                continue;
            }
            seen.push(text.clone());
            let key = Key::from_file_name("n1");
            let r = catch(std::panic::AssertUnwindSafe(|| {
                let mut g = Graph::new();
                g.update_key(key.clone(), &text);
                snapshot(&g).0
            }));
            let nodes = r.unwrap_or(json!([{"kind": "panic", "prev": -1, "next": -1, "child": -1, "key": ""}]));
            built += 1;
            writeln!(out, "{}", json!({"ev": "Build", "case": ln, "variant": var.name, "blocks": v["doc"]["blocks"], "text": text, "nodes": nodes})).unwrap();
        }
    }
    out.flush().unwrap();
    println!("{}", json!({"cases": cases, "built": built, "render_rejects": rejects}));
    0
}
