//! E-lib / C16: canonical dump of a generated library, to be compared across processes
//! (fresh RandomState), rayon pool sizes and load / insert orders.

use std::collections::{BTreeMap, HashMap};
use std::hash::{Hash, Hasher};

use liwe::database::Database;
use liwe::graph::{Graph, GraphContext};
use liwe::model::config::MarkdownOptions;
use liwe::model::Key;
use rand::rngs::StdRng;
use rand::seq::SliceRandom;
use rand::{Rng, SeedableRng};
use serde_json::{json, Value};

/// a tree-shaped library (block references form a tree: path enumeration stays linear)
pub fn gen_library(seed: u64, n: usize) -> BTreeMap<String, String> {
    if seed == 1 {
        // the tiny library (n notes, at most 5) whose every insert order is tried: a chain of inclusions, a link
        // in a first heading, two notes with the same title, a note without heading
        let all: Vec<(&str, &str)> = vec![
            ("t1", "# Tiny [old](t2)\n\n[two](t2)\n\ntext [l](d/t4)\n"),
            ("t2", "# Same\n\n[three](t3)\n\n## Sub\n\n- item [x](t1)\n"),
            ("t3", "# Same\n\ntext [a](t1) and [b](t2)\n"),
            ("d/t4", "[up](../t2)\n\npara [c](../t3)\n"),
            ("t5", "# Five\n\n> [q](t3)\n"),
        ];
        return all.into_iter().take(n.min(5)).map(|(k, v)| (k.to_string(), v.to_string())).collect();
    }
    if seed == 0 {
        // the flat library: no links at all, so every path has the same rank and the 100 listed
        // entries are decided by the tie-breaks alone
        let mut lib = BTreeMap::new();
        for i in 0..n {
            let k = match i % 3 {
                0 => format!("n{}", i),
                1 => format!("d1/n{}", i),
                _ => format!("d2/sub/n{}", i),
            };
            let title = if i % 2 == 0 { "Same title".to_string() } else { format!("Title {}", i % 5) };
            lib.insert(k, format!("# {}\n\ntext of note {}\n\n## Section 0\n\nmore\n", title, i));
        }
        return lib;
    }
    let mut rng = StdRng::seed_from_u64(seed);
    let key = |i: usize| -> String {
        match i % 5 {
            0 => format!("n{}", i),
            1 => format!("d1/n{}", i),
            2 => format!("d2/sub/n{}", i),
            3 => format!("n{}", i),
            _ => format!("d1/n{}", i),
        }
    };
    let mut lib = BTreeMap::new();
    for i in 0..n {
        let k = key(i);
        let dir = Key::from_file_name(&k).parent();
        let rel = |j: usize| Key::from_file_name(&key(j)).to_rel_link_url(&dir);
        // duplicate titles and equal ranks on purpose: ties are where a missing tie-break shows
        let title = if i % 7 == 0 {
            "Same title".to_string()
        } else if i % 11 == 5 {
            // a link with stale text inside the note's first heading: the title other notes show for
            // this note must not depend on whether the link's target was loaded before or after it
            format!("About [old name {}]({})", i, rel((i * 7 + 3) % n))
        } else {
            format!("Title {}", i % 40)
        };
        let mut t = format!("# {}\n\ntext of note {} [link]({})\n", title, i, rel(rng.gen_range(0..n)));
        for c in [2 * i + 1, 2 * i + 2] {
            if c < n {
                t.push_str(&format!("\n[child]({})\n", rel(c)));
            }
        }
        if i % 3 == 0 {
            t.push_str(&format!("\n## Section {}\n\n- item [x]({})\n- item two\n", i % 4, rel(rng.gen_range(0..n))));
        }
        if i % 4 == 0 {
            t.push_str("\n## Section 0\n\nmore text\n");
        }
        lib.insert(k, t);
    }
    // many references to one note from one file: the order in which they are listed must not be that of a hash set
    let mut many = String::from("# Many references\n\n");
    for j in 0..9 {
        many.push_str(&format!("para {} [l{}](shared/leaf)\n\n", j, j));
    }
    many.push_str("- item [x](shared/leaf)\n- item two [y](shared/leaf)\n\n[leaf](shared/leaf)\n");
    lib.insert("manyrefs".to_string(), many);
    // a reference cycle that is reachable from a root: cyc0 <-> cyc1, and two roots that include one of them each
    lib.insert("cyc0".to_string(), "# Cycle zero\n\n[one](cyc1)\n\ntext\n".to_string());
    lib.insert("cyc1".to_string(), "# Cycle one\n\n[zero](cyc0)\n\n## Inner\n\ntext\n".to_string());
    lib.insert("cycroot0".to_string(), "# Root zero\n\n[zero](cyc0)\n".to_string());
    lib.insert("d1/cycroot1".to_string(), "# Root one\n\n[one](../cyc1)\n".to_string());
    // a note included twice by one note, under two sub-headings of one heading: both routes are paths of it,
    // whichever reference the index happens to hand out first
    lib.insert("diamond".to_string(), "# Diamond index\n\n## Alpha side\n\n[s](diamondleaf)\n\n## Beta side\n\n[s](diamondleaf)\n".to_string());
    lib.insert("diamondleaf".to_string(), "# Diamond leaf\n\n## Leaf part\n\ntext\n".to_string());
    // a note that links to itself (its own links count for its rank) and a chain with an empty heading in it
    // (symbol names are the heading texts of the chain, empty ones included)
    lib.insert("selfref".to_string(), "# Self linker\n\ntext [me](selfref) and [me too](selfref)\n".to_string());
    lib.insert("emptyhead".to_string(), "# Projects\n\n##\n\n### Alpha\n\ntext\n".to_string());
    // notes of identical byte length that embed the same note, with equally long titles: every
    // tie-break that falls back on load order or node ids shows here
    lib.insert("shared/leaf".to_string(), "# Shared leaf\n\nleaf text\n".to_string());
    for j in 0..6 {
        lib.insert(format!("twin{}", j), format!("# Twin {}\n\n[leaf](shared/leaf)\n", (b'a' + (5 - j) as u8) as char));
        lib.insert(format!("shared/same{}", j), "# Same\n\n[leaf](leaf)\n".to_string());
    }
    lib
}

fn digest(v: &Value) -> String {
    let mut h = std::collections::hash_map::DefaultHasher::new();
    v.to_string().hash(&mut h);
    format!("{:016x}", h.finish())
}

fn dump(db: &Database) -> Value {
    let g: &Graph = db.graph();
    let export: BTreeMap<String, String> = g.export().into_iter().collect();
    let mut keys: Vec<Key> = g.keys();
    keys.sort();
    let titles: Vec<(String, String)> = keys.iter().map(|k| (k.to_string(), g.get_key_title(k).unwrap_or_default())).collect();
    let backlinks: Vec<(String, Vec<(String, i64)>)> = keys
        .iter()
        .map(|k| {
            let mut v: Vec<(String, i64)> = g
                .get_block_references_to(k)
                .into_iter()
                .chain(g.get_inline_references_to(k))
                .map(|id| (g.key_of(id).to_string(), g.node_line_range(id).map(|r| r.start as i64).unwrap_or(-1)))
                .collect();
            v.sort();
            (k.to_string(), v)
        })
        .collect();
    // the set of outline paths (node ids, hence the listing order of Graph::paths, legitimately depend
    // on the insertion order; `iwe paths` sorts the rendered paths); search results in returned order
    let mut paths: Vec<String> = g.paths().iter().map(|p| p.ids().iter().map(|id| g.get_text(*id)).collect::<Vec<_>>().join(" > ")).collect();
    paths.sort();
    let search = |q: &str| -> Vec<String> { db.global_search(q).iter().map(|p| format!("{}|{}|{}", p.search_text, p.key, p.line)).collect() };
    // the same search repeated in this process: work stealing splits the path list differently
    // from run to run, the answer must not follow it
    let mut repeat_stable = true;
    for q in ["", "Title 1", "Same title", "Section 0"] {
        let first = search(q);
        for _ in 0..12 {
            if search(q) != first {
                repeat_stable = false;
            }
        }
    }
    // ... and the same search inside pools of other sizes
    for q in ["", "Title 1", "Same title", "Section 0"] {
        let first = search(q);
        for t in [1usize, 2, 3, 5, 8] {
            let pool = rayon::ThreadPoolBuilder::new().num_threads(t).build().unwrap();
            for _ in 0..3 {
                if pool.install(|| search(q)) != first {
                    repeat_stable = false;
                }
            }
        }
    }
    let sections = json!({
        "export": export, "titles": titles, "backlinks": backlinks, "paths": paths, "search_repeat_stable": repeat_stable,
        "search_empty": search(""), "search_title": search("Title 1"), "search_same": search("Same title"), "search_sec": search("Section 0"),
    });
    let mut d = serde_json::Map::new();
    for (k, v) in sections.as_object().unwrap() {
        d.insert(k.clone(), json!(digest(v)));
    }
    json!({"digests": d, "full": sections})
}

/// `vh lib-dump <seed> <n notes> <route: import|insert|fs> <order seed> <scratch dir> <out.json>`
pub fn cmd_dump(args: &[String]) -> i32 {
    let seed: u64 = args[0].parse().unwrap();
    let n: usize = args[1].parse().unwrap();
    let route = args[2].as_str();
    let oseed: u64 = args[3].parse().unwrap();
    let lib = gen_library(seed, n);
    let mut order: Vec<(String, String)> = lib.iter().map(|(k, v)| (k.clone(), v.clone())).collect();
    if order.len() <= 5 {
        // small libraries: the order seed is the index of a permutation (all of them are tried)
        let mut rest = order.clone();
        let mut idx = oseed as usize;
        order.clear();
        while !rest.is_empty() {
            let k = idx % rest.len();
            idx /= rest.len();
            order.push(rest.remove(k));
        }
    } else {
        order.shuffle(&mut StdRng::seed_from_u64(oseed));
    }
    let db = match route {
        "insert" => {
            // start from the first note, insert the others one by one in the permuted order
            let mut first = HashMap::new();
            first.insert(order[0].0.clone(), order[0].1.clone());
            let mut db = Database::new(first, false, MarkdownOptions::default());
            for (k, v) in order.iter().skip(1) {
                db.insert_document(Key::from_file_name(k), v.clone());
            }
            db
        }
        "fs" => {
            let root = std::path::PathBuf::from(&args[4]);
            let _ = std::fs::remove_dir_all(&root);
            for (k, v) in order.iter() {
                let p = root.join(format!("{}.md", k));
                std::fs::create_dir_all(p.parent().unwrap()).unwrap();
                std::fs::write(p, v).unwrap();
            }
            let state = liwe::fs::new_for_path(&root);
            let _ = std::fs::remove_dir_all(&root);
            Database::new(state, false, MarkdownOptions::default())
        }
        _ => {
            let mut state = HashMap::new();
            for (k, v) in order.iter() {
                state.insert(k.clone(), v.clone());
            }
            Database::new(state, false, MarkdownOptions::default())
        }
    };
    let mut d = dump(&db);
    // what the LSP server answers to find-references (an ordered list) for every note of the library
    let refs = lsp_references(&lib);
    d["digests"]["lsp_references"] = json!(digest(&refs));
    d["full"]["lsp_references"] = refs;
    // the outline the server lists for every note (textDocument/documentSymbol): names and lines, in the order given
    let syms = lsp_document_symbols(&lib);
    // the link completions offered in the first note (labels tie for notes with equal titles)
    let comp = lsp_completion(&lib);
    d["digests"]["lsp_completion"] = json!(digest(&comp));
    d["full"]["lsp_completion"] = comp;
    // (recorded under one name whichever way the server got to its state: the judge compares all observations)
    let resent = lsp_document_symbols_after_resend(&lib);
    d["resend_changes_symbols"] = json!(resent != syms);
    d["digests"]["lsp_document_symbols"] = json!(digest(&syms));
    d["full"]["lsp_document_symbols"] = syms;
    std::fs::write(&args[5], serde_json::to_string(&d).unwrap()).unwrap();
    0
}

fn lsp_completion(lib: &BTreeMap<String, String>) -> Value {
    use iwes::router::server::Server;
    use iwes::router::{LspClient, ServerConfig};
    use lsp_types::{CompletionParams, PartialResultParams, Position, TextDocumentIdentifier, TextDocumentPositionParams, Url, WorkDoneProgressParams};
    let state: HashMap<String, String> = lib.iter().map(|(k, v)| (k.clone(), v.clone())).collect();
    let server = Server::new(ServerConfig {
        base_path: "/basepath".to_string(),
        state,
        sequential_ids: None,
        configuration: Default::default(),
        lsp_client: LspClient::Unknown,
    });
    let Some(first) = lib.keys().next() else { return json!([]) };
    let uri = Url::parse(&format!("file:///basepath/{}.md", first)).unwrap();
    let items = server.handle_link_completion(CompletionParams {
        text_document_position: TextDocumentPositionParams { text_document: TextDocumentIdentifier { uri }, position: Position::new(0, 0) },
        work_done_progress_params: WorkDoneProgressParams::default(),
        partial_result_params: PartialResultParams::default(),
        context: None,
    });
    json!(items.iter().map(|i| format!("{}|{}", i.label, i.insert_text.clone().unwrap_or_default())).collect::<Vec<_>>())
}

fn lsp_document_symbols(lib: &BTreeMap<String, String>) -> Value {
    use iwes::router::server::Server;
    use iwes::router::{LspClient, ServerConfig};
    use lsp_types::{DocumentSymbolParams, PartialResultParams, TextDocumentIdentifier, Url, WorkDoneProgressParams};
    let state: HashMap<String, String> = lib.iter().map(|(k, v)| (k.clone(), v.clone())).collect();
    let server = Server::new(ServerConfig {
        base_path: "/basepath".to_string(),
        state,
        sequential_ids: None,
        configuration: Default::default(),
        lsp_client: LspClient::Unknown,
    });
    let mut out = serde_json::Map::new();
    for k in lib.keys() {
        let uri = Url::parse(&format!("file:///basepath/{}.md", k)).unwrap();
        let syms = server.handle_document_symbols(DocumentSymbolParams {
            text_document: TextDocumentIdentifier { uri },
            work_done_progress_params: WorkDoneProgressParams::default(),
            partial_result_params: PartialResultParams::default(),
        });
        if syms.len() > 1 {
            out.insert(k.clone(), json!(syms.iter().map(|s| format!("{}@{}:{}", s.name, s.location.uri, s.location.range.start.line)).collect::<Vec<_>>()));
        }
    }
    Value::Object(out)
}

/// the same outlines after some notes were sent again, unchanged, by didChange: an edit that changes no text must
/// change no answer
fn lsp_document_symbols_after_resend(lib: &BTreeMap<String, String>) -> Value {
    use iwes::router::server::Server;
    use iwes::router::{LspClient, ServerConfig};
    use lsp_types::{DidChangeTextDocumentParams, DocumentSymbolParams, PartialResultParams, TextDocumentContentChangeEvent, TextDocumentIdentifier, Url, VersionedTextDocumentIdentifier, WorkDoneProgressParams};
    let state: HashMap<String, String> = lib.iter().map(|(k, v)| (k.clone(), v.clone())).collect();
    let mut server = Server::new(ServerConfig {
        base_path: "/basepath".to_string(),
        state,
        sequential_ids: None,
        configuration: Default::default(),
        lsp_client: LspClient::Unknown,
    });
    // (a dozen notes spread over the library, the last key first: their nodes get new ids, out of key order)
    let step = (lib.len() / 12).max(1);
    for (k, text) in lib.iter().rev().step_by(step) {
        let uri = Url::parse(&format!("file:///basepath/{}.md", k)).unwrap();
        server.handle_did_change_text_document(DidChangeTextDocumentParams {
            text_document: VersionedTextDocumentIdentifier { uri, version: 2 },
            content_changes: vec![TextDocumentContentChangeEvent { range: None, range_length: None, text: text.clone() }],
        });
    }
    let mut out = serde_json::Map::new();
    for k in lib.keys() {
        let uri = Url::parse(&format!("file:///basepath/{}.md", k)).unwrap();
        let syms = server.handle_document_symbols(DocumentSymbolParams {
            text_document: TextDocumentIdentifier { uri },
            work_done_progress_params: WorkDoneProgressParams::default(),
            partial_result_params: PartialResultParams::default(),
        });
        if syms.len() > 1 {
            out.insert(k.clone(), json!(syms.iter().map(|s| format!("{}@{}:{}", s.name, s.location.uri, s.location.range.start.line)).collect::<Vec<_>>()));
        }
    }
    Value::Object(out)
}

fn lsp_references(lib: &BTreeMap<String, String>) -> Value {
    use iwes::router::server::Server;
    use iwes::router::{LspClient, ServerConfig};
    use lsp_types::{PartialResultParams, Position, ReferenceContext, ReferenceParams, TextDocumentIdentifier, TextDocumentPositionParams, Url, WorkDoneProgressParams};
    let state: HashMap<String, String> = lib.iter().map(|(k, v)| (k.clone(), v.clone())).collect();
    let server = Server::new(ServerConfig {
        base_path: "/basepath".to_string(),
        state,
        sequential_ids: None,
        configuration: Default::default(),
        lsp_client: LspClient::Unknown,
    });
    let mut out = serde_json::Map::new();
    for k in lib.keys() {
        let uri = Url::parse(&format!("file:///basepath/{}.md", k)).unwrap();
        let locs = server.handle_references(ReferenceParams {
            text_document_position: TextDocumentPositionParams { text_document: TextDocumentIdentifier { uri }, position: Position::new(0, 0) },
            work_done_progress_params: WorkDoneProgressParams::default(),
            partial_result_params: PartialResultParams::default(),
            context: ReferenceContext { include_declaration: false },
        });
        if locs.len() > 1 {
            out.insert(k.clone(), json!(locs.iter().map(|l| format!("{}:{}", l.uri, l.range.start.line)).collect::<Vec<_>>()));
        }
    }
    Value::Object(out)
}

/// `vh lib-search <seed> <n notes> <out.ndjson>`: what global_search returns for several queries,
/// next to the full listing it was chosen from with the fuzzy scores (C18: cap and documented order)
pub fn cmd_search(args: &[String]) -> i32 {
    use fuzzy_matcher::skim::SkimMatcherV2;
    use fuzzy_matcher::FuzzyMatcher;
    use std::io::Write;
    let seed: u64 = args[0].parse().unwrap();
    let n: usize = args[1].parse().unwrap();
    let lib = gen_library(seed, n);
    let state: HashMap<String, String> = lib.into_iter().collect();
    // how often every note is referred to, counted on the texts themselves: every "](url)" of every note,
    // resolved from the linking note's directory ("an empty query lists the most-referenced notes first")
    let mut refs: HashMap<String, usize> = HashMap::new();
    for (k, text) in state.iter() {
        let dir: Vec<&str> = k.split('/').collect::<Vec<_>>().split_last().map(|(_, d)| d.to_vec()).unwrap_or_default();
        // (a reference is a linking block - here: a line - however many links to the note it holds)
        for line in text.lines() {
            let mut seen: Vec<String> = vec![];
            let mut rest = line;
            while let Some(at) = rest.find("](") {
                rest = &rest[at + 2..];
                let Some(end) = rest.find(')') else { break };
                let url = rest[..end].trim_end_matches(".md");
                let mut segs: Vec<&str> = dir.clone();
                for part in url.split('/') {
                    match part {
                        "" | "." => {}
                        ".." => {
                            segs.pop();
                        }
                        p => segs.push(p),
                    }
                }
                let target = segs.join("/");
                if !seen.contains(&target) {
                    *refs.entry(target.clone()).or_insert(0) += 1;
                    seen.push(target);
                }
            }
        }
    }
    let starts_with_heading: HashMap<String, bool> = state.iter().map(|(k, t)| (k.clone(), t.starts_with('#'))).collect();
    let server_state = state.clone();
    let db = Database::new(state, false, MarkdownOptions::default());
    let all = db.graph().search_paths();
    let matcher = SkimMatcherV2::default();
    // the names the language server gives the same entries (workspace/symbol)
    let server = {
        use iwes::router::server::Server;
        use iwes::router::{LspClient, ServerConfig};
        Server::new(ServerConfig {
            base_path: "/basepath".to_string(),
            state: server_state,
            sequential_ids: None,
            configuration: Default::default(),
            lsp_client: LspClient::Unknown,
        })
    };
    let mut out = std::io::BufWriter::new(std::fs::File::create(&args[2]).expect("out"));
    for q in ["", "Title 1", "Same title", "Section 0", "Twin", "zzzz", "t"] {
        let listing: Vec<Value> = all
            .iter()
            .map(|p| {
                // the entry of a note's first heading carries the note's reference count, every other entry 0
                let key = p.key.to_string();
                let first = p.line == 0 && starts_with_heading.get(&key).copied().unwrap_or(false);
                json!({"score": matcher.fuzzy_match(&p.search_text, q).unwrap_or(0), "len": p.search_text.len(), "rank": p.node_rank,
                       "refs": if first { refs.get(&key).copied().unwrap_or(0) } else { 0 }})
            })
            .collect();
        let mut used = vec![false; all.len()];
        let mut idx: Vec<i64> = vec![];
        for r in db.global_search(q) {
            // which entry of the listing is this (same text, key, line; each used once)
            let hit = all.iter().enumerate().position(|(i, p)| !used[i] && p.search_text == r.search_text && p.key == r.key && p.line == r.line && p.node_rank == r.node_rank);
            match hit {
                Some(i) => {
                    used[i] = true;
                    idx.push(i as i64 + 1);
                }
                None => idx.push(-1),
            }
        }
        // "symbol names are the heading texts of the chain": the chain of every returned entry, joined with the
        // separator the tool uses, against the names of workspace/symbol for the same query (entries whose name
        // is empty are not listed)
        let expected_names: Vec<String> = db
            .global_search(q)
            .iter()
            .map(|r| r.path.ids().iter().map(|id| db.graph().get_text(*id).trim().to_string()).collect::<Vec<_>>().join(" \u{2022} "))
            .filter(|name| !name.is_empty())
            .collect();
        let symbol_names: Vec<String> = {
            use lsp_types::{PartialResultParams, WorkDoneProgressParams, WorkspaceSymbolParams, WorkspaceSymbolResponse};
            match server.handle_workspace_symbols(WorkspaceSymbolParams {
                query: q.to_string(),
                work_done_progress_params: WorkDoneProgressParams::default(),
                partial_result_params: PartialResultParams::default(),
            }) {
                WorkspaceSymbolResponse::Flat(v) => v.into_iter().map(|s| s.name).collect(),
                WorkspaceSymbolResponse::Nested(v) => v.into_iter().map(|s| s.name).collect(),
            }
        };
        let names_differ: Vec<Value> = (0..expected_names.len().max(symbol_names.len()))
            .filter(|i| expected_names.get(*i) != symbol_names.get(*i))
            .take(3)
            .map(|i| json!([i, expected_names.get(i), symbol_names.get(i)]))
            .collect();
        writeln!(out, "{}", json!({"ev":"Search","seed":seed,"notes":n,"query":q,"empty":q.is_empty(),"all":listing,"returned":idx,
                                    "symbols":symbol_names.len(),"names_differ":names_differ})).unwrap();
    }
    out.flush().unwrap();
    0
}
