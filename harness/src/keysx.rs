//! E-addr / C15: the real Key algebra, completion items and exported block references on
//! TLC-generated (key, directory) and (directory, url) pairs.

use std::collections::{BTreeSet, HashMap};
use std::io::{BufRead, Write};
use std::time::Duration;

use liwe::graph::Graph;
use liwe::model::config::MarkdownOptions;
use liwe::model::Key;
use serde_json::{json, Value};

use crate::docrun::catch;
use crate::libx::{parse_url, url_str, Url};
use crate::router::{uri, Client};

fn segs(v: &Value) -> Vec<String> {
    v.as_array().map(|a| a.iter().map(|s| s.as_str().unwrap_or("").to_string()).collect()).unwrap_or_default()
}

fn first_link_url(md: &str) -> Option<String> {
    let i = md.find("](")?;
    let rest = &md[i + 2..];
    let j = rest.find(')')?;
    Some(rest[..j].to_string())
}

/// `vh keys-replay <cases.ndjson> <events.ndjson>`
pub fn cmd_replay(args: &[String]) -> i32 {
    std::panic::set_hook(Box::new(|_| {}));
    let f = std::fs::File::open(&args[0]).expect("cases");
    let mut out = std::io::BufWriter::new(std::fs::File::create(&args[1]).expect("events"));
    let mut writes: Vec<(Vec<String>, Vec<String>)> = vec![];
    let mut n = 0;
    for line in std::io::BufReader::new(f).lines() {
        let line = line.unwrap();
        if line.trim().is_empty() {
            continue;
        }
        let c: Value = serde_json::from_str(&line).unwrap();
        let d = segs(&c["d"]);
        let ds = d.join("/");
        match c["kind"].as_str().unwrap_or("") {
            "write" => {
                let k = segs(&c["k"]);
                let ks = k.join("/");
                let raw = catch(|| Key::from_file_name(&ks).to_rel_link_url(&ds)).unwrap_or("<panic>".into());
                let (u, _) = parse_url(&raw);
                writeln!(out, "{}", json!({"ev":"write","via":"Key::to_rel_link_url","k":k,"d":d,"raw":raw,"url":u})).unwrap();
                writes.push((k, d));
            }
            "read" => {
                let u: Url = serde_json::from_value(c["u"].clone()).unwrap();
                let raw = url_str(&u, false);
                let key = catch(|| Key::from_rel_link_url(&raw, &ds).to_string()).unwrap_or("<panic>".into());
                let rew = catch(|| Key::from_rel_link_url(&raw, &ds).to_rel_link_url(&ds)).unwrap_or("<panic>".into());
                let (ru, _) = parse_url(&rew);
                let keysegs: Vec<String> = key.split('/').map(|s| s.to_string()).collect();
                writeln!(out, "{}", json!({"ev":"read","d":d,"u":u,"raw":raw,"key":keysegs,"rewritten":ru,"rewritten_raw":rew})).unwrap();
            }
            _ => {}
        }
        n += 1;
    }
    // the same pairs through a library: exported block references and completion items
    let keys: BTreeSet<Vec<String>> = writes.iter().map(|(k, _)| k.clone()).collect();
    let dirs: BTreeSet<Vec<String>> = writes.iter().map(|(_, d)| d.clone()).collect();
    let title = |k: &Vec<String>| format!("T_{}", k.join("_"));
    let mut state: HashMap<String, String> = HashMap::new();
    for k in keys.iter() {
        state.insert(k.join("/"), format!("# {}\n", title(k)));
    }
    // one linking note per directory, holding a block reference to every key, written with the
    // url the code itself produces
    for d in dirs.iter() {
        let mut name = d.clone();
        name.push("zzlinker".into());
        let ds = d.join("/");
        let mut text = String::from("# linker\n");
        for k in keys.iter() {
            let url = Key::from_file_name(&k.join("/")).to_rel_link_url(&ds);
            text.push_str(&format!("\n[x]({})\n", url));
        }
        state.insert(name.join("/"), text);
        // ... and a note holding, for every key, an image whose alternative text links to it
        let mut img = d.clone();
        img.push("zzimg".into());
        let mut text = String::from("# images\n");
        for k in keys.iter() {
            let url = Key::from_file_name(&k.join("/")).to_rel_link_url(&ds);
            text.push_str(&format!("\npic ![see [x]({}) there](p.png) end\n", url));
        }
        state.insert(img.join("/"), text);
    }
    let st2 = state.clone();
    if let Ok(exp) = catch(move || Graph::import(&st2, MarkdownOptions::default()).export()) {
        for d in dirs.iter() {
            let mut name = d.clone();
            name.push("zzlinker".into());
            if let Some(t) = exp.get(&name.join("/")) {
                // the references come back in the order they were written (sorted keys): the i-th
                // reference must still resolve to the i-th key, whatever text it was given
                let urls: Vec<String> = t.lines().filter(|l| l.starts_with('[')).filter_map(|l| first_link_url(l)).collect();
                if urls.len() != keys.len() {
                    writeln!(out, "{}", json!({"ev":"write","via":"export of a block reference (count)","k":["<all>"],"d":d,"raw":format!("{} of {}", urls.len(), keys.len()),"url":{"up":0,"segs":[],"md":false,"dot":false}})).unwrap();
                    continue;
                }
                for (k, url) in keys.iter().zip(urls.iter()) {
                    let (u, _) = parse_url(url);
                    writeln!(out, "{}", json!({"ev":"write","via":"export of a block reference","k":k,"d":d,"raw":url,"url":u})).unwrap();
                }
            }
        }
    }
    let st3 = state.clone();
    if let Ok(exp) = catch(move || Graph::import(&st3, MarkdownOptions::default()).export()) {
        for d in dirs.iter() {
            let mut name = d.clone();
            name.push("zzimg".into());
            if let Some(t) = exp.get(&name.join("/")) {
                // the i-th image line still links to the i-th key
                let urls: Vec<String> = t
                    .lines()
                    .filter(|l| l.starts_with("pic !["))
                    .filter_map(|l| l.find("](").map(|at| &l[at + 2..]).and_then(|r| r.find(')').map(|e| r[..e].to_string())))
                    .collect();
                if urls.len() != keys.len() {
                    writeln!(out, "{}", json!({"ev":"write","via":"export of a link inside an image text (count)","k":["<all>"],"d":d,"raw":format!("{} of {}", urls.len(), keys.len()),"url":{"up":0,"segs":[],"md":false,"dot":false}})).unwrap();
                    continue;
                }
                for (k, url) in keys.iter().zip(urls.iter()) {
                    let (u, _) = parse_url(url);
                    writeln!(out, "{}", json!({"ev":"write","via":"export of a link inside an image text","k":k,"d":d,"raw":url,"url":u})).unwrap();
                }
            }
        }
    }
    // completion items offered inside the linker note of every directory
    let mut client = Client::start(state.clone(), Default::default());
    for (i, d) in dirs.iter().enumerate() {
        let mut name = d.clone();
        name.push("zzlinker".into());
        let id = format!("{}", i + 1);
        client.send_req(&id, "textDocument/completion", json!({"textDocument":{"uri":uri(&name.join("/"))},"position":{"line":0,"character":0}}));
        if let Some(r) = client.wait_response(&id, Duration::from_secs(30)) {
            if let Some(items) = r.result.as_ref().and_then(|v| v.get("items")).and_then(|v| v.as_array()) {
                for it in items {
                    let ins = it.get("insertText").and_then(|v| v.as_str()).unwrap_or("");
                    if let Some(url) = first_link_url(ins) {
                        let text = &ins[1..ins.find("](").unwrap_or(1)];
                        if let Some(k) = keys.iter().find(|k| title(k) == text) {
                            let (u, _) = parse_url(&url);
                            writeln!(out, "{}", json!({"ev":"write","via":"completion item","k":k,"d":d,"raw":url,"url":u})).unwrap();
                        }
                    }
                }
            }
        }
    }
    let _ = client.exit_and_join(Duration::from_secs(10));
    out.flush().unwrap();
    println!("{}", json!({"cases": n}));
    0
}
