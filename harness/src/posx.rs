//! E-addr / C13: positions.  Every TLC-generated text (leading lines, multi-byte / astral
//! characters before a link, LF or CRLF) is loaded by a real server; definition,
//! prepareRename and rename are requested at every (line, character) of a window around the
//! text, and the lines reported by references, inlay hints, symbols and code actions are
//! recorded.  The truth (UTF-16 spans, line numbers) comes with the case from Pos.tla.

use std::collections::HashMap;
use std::io::{BufRead, Write};
use std::time::Duration;

use serde_json::{json, Value};

use crate::router::{uri, Client};

fn ch(c: &str) -> &'static str {
    match c {
        "a" => "a",
        "e" => "é",
        "j" => "日",
        "x" => "😀",
        _ => "?",
    }
}

fn s(v: &Value) -> String {
    v.as_array().map(|a| a.iter().map(|c| ch(c.as_str().unwrap_or(""))).collect()).unwrap_or_default()
}

pub fn build_text(c: &Value) -> String {
    let ending = c["ending"].as_str().unwrap_or(if c["crlf"].as_bool().unwrap_or(false) { "crlf" } else { "lf" }).to_string();
    let link_line = c["link_line"].as_u64().unwrap_or(0) as usize;
    let mut lines: Vec<String> = vec![];
    let lead = c["lead"].as_array().cloned().unwrap_or_default();
    for l in lead.iter() {
        lines.push(s(l));
    }
    if !lead.is_empty() {
        lines.push(String::new());
    }
    lines.push("# Head".into());
    lines.push(String::new());
    // the link's own text may be non-ASCII ("ltext"); its paragraph may have a second line
    // ("wrap"), long enough to lie under / over the link's columns
    let ltext = if c["ltext"].is_array() { s(&c["ltext"]) } else { "t".to_string() };
    let ltext = if ltext == "a" { "t".to_string() } else { ltext };
    let wrap = c["wrap"].as_str().unwrap_or("none");
    if wrap == "before" {
        lines.push("z".repeat(30));
    }
    lines.push(format!("{}[{}](2){}", s(&c["prefix"]), ltext, s(&c["suffix"])));
    if wrap == "after" {
        lines.push("z".repeat(30));
    }
    lines.push(String::new());
    lines.push("[r](2)".into());
    lines.push(String::new());
    lines.push("- it [i](2)".into());
    lines.push("  more [j](2)".into());
    // (the link starts late on its first line and ends early on its second)
    lines.push("- kkkkkkkk [wra".into());
    lines.push("  p](2)".into());
    lines.push(String::new());
    lines.push("> [q](2)".into());
    lines.push(String::new());
    lines.push("w [[2]] x [[2|s]] y".into());
    lines.push(String::new());
    lines.push("| h | k |".into());
    lines.push("|---|---|".into());
    lines.push("| c | [c](2) |".into());
    lines.push(String::new());
    lines.push("tail [z](2)".into());
    lines.push("end [y](2)".into());
    let mut t = String::new();
    for (i, l) in lines.iter().enumerate() {
        t.push_str(l);
        let crlf = match ending.as_str() {
            "crlf" => true,
            "crlf-lf" => i < link_line,
            "lf-crlf" => i >= link_line,
            _ => false,
        };
        // (eof = false: the text ends without a final newline)
        if i + 1 < lines.len() || c["eof"].as_bool().unwrap_or(true) {
            t.push_str(if crlf { "\r\n" } else { "\n" });
        }
    }
    t
}

const T: Duration = Duration::from_secs(30);

fn run_case(c: &Value) -> Value {
    let text = build_text(c);
    let mut state: HashMap<String, String> = HashMap::new();
    state.insert("1".into(), text.clone());
    state.insert("2".into(), "# Two\n".into());
    let mut cl = Client::start(state, Default::default());
    let u1 = uri("1");
    let last = c["last_line"].as_u64().unwrap_or(0);
    let maxch = c["maxch"].as_u64().unwrap_or(c["link_end"].as_u64().unwrap_or(0) + 6);
    let mut id = 0i64;
    let mut ids: Vec<(String, u64, u64, &'static str)> = vec![];
    for line in 0..=last + 1 {
        for chx in 0..=maxch {
            for (m, meth) in [("def", "textDocument/definition"), ("prep", "textDocument/prepareRename")] {
                id += 1;
                cl.send_req(&id.to_string(), meth, json!({"textDocument":{"uri":u1},"position":{"line":line,"character":chx}}));
                ids.push((id.to_string(), line, chx, m));
            }
            id += 1;
            cl.send_req(&id.to_string(), "textDocument/rename", json!({"textDocument":{"uri":u1},"position":{"line":line,"character":chx},"newName":"fresh"}));
            ids.push((id.to_string(), line, chx, "ren"));
        }
    }
    let mut def: Vec<Value> = vec![];
    let mut prep: Vec<Value> = vec![];
    let mut ren: Vec<Value> = vec![];
    let mut errors = 0;
    for (rid, line, chx, m) in ids.iter() {
        match cl.wait_response(rid, T) {
            Some(r) => {
                if r.error.is_some() {
                    errors += 1;
                    continue;
                }
                let v = r.result.unwrap_or(Value::Null);
                match *m {
                    "def" => {
                        if v.get("uri").is_some() {
                            def.push(json!([line, chx]));
                        }
                    }
                    "prep" => {
                        if let Some(rg) = v.get("range") {
                            prep.push(json!([line, chx, rg["start"]["line"], rg["start"]["character"], rg["end"]["line"], rg["end"]["character"]]));
                        }
                    }
                    _ => {
                        if v.get("documentChanges").is_some() {
                            ren.push(json!([line, chx]));
                        }
                    }
                }
            }
            None => errors += 1,
        }
    }
    // lines reported for blocks and links
    let mut rq = |cl: &mut Client, id: &mut i64, m: &str, p: Value| -> Value {
        *id += 1;
        cl.send_req(&id.to_string(), m, p);
        cl.wait_response(&id.to_string(), T).and_then(|r| r.result).unwrap_or(Value::Null)
    };
    let refs = rq(&mut cl, &mut id, "textDocument/references", json!({"textDocument":{"uri":uri("2")},"position":{"line":0,"character":0},"context":{"includeDeclaration":false}}));
    let mut ref_lines: Vec<u64> = refs.as_array().map(|a| a.iter().filter_map(|l| l["range"]["start"]["line"].as_u64()).collect()).unwrap_or_default();
    ref_lines.sort();
    let hints = rq(&mut cl, &mut id, "textDocument/inlayHint", json!({"textDocument":{"uri":u1},"range":{"start":{"line":0,"character":0},"end":{"line":1000,"character":0}}}));
    let mut hint_lines: Vec<u64> = hints
        .as_array()
        .map(|a| a.iter().filter(|h| h["label"].as_str().map(|l| l.starts_with('⎘')).unwrap_or(false)).filter_map(|h| h["position"]["line"].as_u64()).collect())
        .unwrap_or_default();
    hint_lines.sort();
    let sym = rq(&mut cl, &mut id, "workspace/symbol", json!({"query":"Head"}));
    let sym_lines: Vec<u64> = sym.as_array().map(|a| a.iter().filter(|s| s["location"]["uri"] == u1.as_str()).filter_map(|s| s["location"]["range"]["start"]["line"].as_u64()).collect()).unwrap_or_default();
    // code actions per line: which lines offer a list action / an inline-reference action
    let mut list_lines: Vec<u64> = vec![];
    let mut inline_lines: Vec<u64> = vec![];
    let mut section_lines: Vec<u64> = vec![];
    for line in 0..=last + 1 {
        let a = rq(&mut cl, &mut id, "textDocument/codeAction", json!({"textDocument":{"uri":u1},"range":{"start":{"line":line,"character":0},"end":{"line":line,"character":0}},"context":{"diagnostics":[]}}));
        let kinds: Vec<String> = a.as_array().map(|x| x.iter().filter_map(|k| k["kind"].as_str().map(|s| s.to_string())).collect()).unwrap_or_default();
        if kinds.iter().any(|k| k == "refactor.rewrite.list.type") {
            list_lines.push(line);
        }
        if kinds.iter().any(|k| k == "refactor.inline.reference.section" || k == "refactor.inline.reference.quote") {
            inline_lines.push(line);
        }
        if kinds.iter().any(|k| k == "refactor.rewrite.section.list") {
            section_lines.push(line);
        }
    }
    let _ = cl.exit_and_join(Duration::from_secs(10));
    // the same question asked the way Helix asks it with the cursor resting on a line: the range runs from
    // that line into the start of the next one
    let mut hstate: HashMap<String, String> = HashMap::new();
    hstate.insert("1".into(), text.clone());
    hstate.insert("2".into(), "# Two\n".into());
    let mut hx = Client::start_named(hstate, Default::default(), Some("helix".to_string()));
    let mut helix_list: Vec<u64> = vec![];
    let mut helix_inline: Vec<u64> = vec![];
    let mut helix_section: Vec<u64> = vec![];
    for line in 0..=last + 1 {
        let a = rq(&mut hx, &mut id, "textDocument/codeAction", json!({"textDocument":{"uri":u1},"range":{"start":{"line":line,"character":0},"end":{"line":line + 1,"character":0}},"context":{"diagnostics":[]}}));
        let kinds: Vec<String> = a.as_array().map(|x| x.iter().filter_map(|k| k["kind"].as_str().map(|s| s.to_string())).collect()).unwrap_or_default();
        if kinds.iter().any(|k| k == "refactor.rewrite.list.type") {
            helix_list.push(line);
        }
        if kinds.iter().any(|k| k == "refactor.inline.reference.section" || k == "refactor.inline.reference.quote") {
            helix_inline.push(line);
        }
        if kinds.iter().any(|k| k == "refactor.rewrite.section.list") {
            helix_section.push(line);
        }
    }
    let _ = hx.exit_and_join(Duration::from_secs(10));
    json!({"ev":"Pos","case":c,"helix_list_lines":helix_list,"helix_inline_lines":helix_inline,"helix_section_lines":helix_section,"def":def,"prep":prep,"ren":ren,"errors":errors,"ref_lines":ref_lines,"hint_lines":hint_lines,
           "sym_lines":sym_lines,"list_lines":list_lines,"inline_lines":inline_lines,"section_lines":section_lines,"text":text})
}

/// `vh pos-replay <cases.ndjson> <events.ndjson> [--shard i/n]`
pub fn cmd_replay(args: &[String]) -> i32 {
    let mut shard = (0usize, 1usize);
    if args.len() > 3 && args[2] == "--shard" {
        let p: Vec<usize> = args[3].split('/').map(|s| s.parse().unwrap()).collect();
        shard = (p[0], p[1]);
    }
    std::panic::set_hook(Box::new(|_| {}));
    let f = std::fs::File::open(&args[0]).expect("cases");
    let mut out = std::io::BufWriter::new(std::fs::File::create(&args[1]).expect("events"));
    let mut n = 0;
    for (ln, line) in std::io::BufReader::new(f).lines().enumerate() {
        let line = line.unwrap();
        if line.trim().is_empty() || ln % shard.1 != shard.0 {
            continue;
        }
        let c: Value = serde_json::from_str(&line).unwrap();
        let mut e = run_case(&c);
        e["id"] = json!(ln);
        writeln!(out, "{}", e).unwrap();
        n += 1;
    }
    out.flush().unwrap();
    println!("{}", json!({"cases": n}));
    0
}
