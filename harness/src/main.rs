mod absdoc;
mod arenax;
mod detx;
mod docrun;
mod fsx;
mod keysx;
mod libx;
mod posx;
mod project;
mod refx;
mod render;
mod router;
mod squashx;
mod totalx;
mod urix;

fn main() {
    let args: Vec<String> = std::env::args().collect();
    if args.len() < 2 {
        eprintln!("usage: vh <subcommand> ...");
        std::process::exit(2);
    }
    let rest = &args[2..];
    let code = match args[1].as_str() {
        "router-replay" => router::cmd_replay(rest),
        "router-seq" => router::cmd_seq(rest),
        "fs-export" => fsx::cmd_export(rest),
        "doc-replay" => docrun::cmd_replay(rest),
        "doc-project" => docrun::cmd_project(rest),
        "lib-replay" => libx::cmd_replay(rest),
        "keys-replay" => keysx::cmd_replay(rest),
        "uri-replay" => urix::cmd_replay(rest),
        "pos-replay" => posx::cmd_replay(rest),
        "squash-replay" => squashx::cmd_replay(rest),
        "arena-replay" => arenax::cmd_replay(rest),
        "builder-replay" => arenax::cmd_builder(rest),
        "lib-dump" => detx::cmd_dump(rest),
        "lib-search" => detx::cmd_search(rest),
        "total-run" => totalx::cmd_run(rest),
        "refactor-replay" => refx::cmd_replay(rest),
        "rename-replay" => refx::cmd_rename(rest),
        other => {
            eprintln!("unknown subcommand {}", other);
            2
        }
    };
    std::process::exit(code);
}
