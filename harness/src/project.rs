//! Projector: Markdown text -> abstract document, straight from pulldown-cmark events.
//! Shares no code with iwe's MarkdownEventsReader (which is where content gets lost).
//! The option set is exactly the one iwe's reader enables (reader.rs:47-52).

use pulldown_cmark::{CodeBlockKind, Event, LinkType, Options, Parser, Tag, TagEnd};

use crate::absdoc::*;

pub fn options() -> Options {
    Options::ENABLE_YAML_STYLE_METADATA_BLOCKS | Options::ENABLE_WIKILINKS | Options::ENABLE_TABLES
}

pub fn project(text: &str) -> Doc {
    let events: Vec<Event> = Parser::new_ext(text, options()).collect();
    let mut p = P { ev: events, i: 0, meta: String::new() };
    let blocks = p.blocks(None);
    norm_doc(&Doc { meta: p.meta.clone(), blocks })
}

/// the parsed structure as it is (items that start with a list are not merged)
pub fn project_raw(text: &str) -> Doc {
    let events: Vec<Event> = Parser::new_ext(text, options()).collect();
    let mut p = P { ev: events, i: 0, meta: String::new() };
    let blocks = p.blocks(None);
    norm_doc_raw(&Doc { meta: p.meta.clone(), blocks })
}

struct P<'a> {
    ev: Vec<Event<'a>>,
    i: usize,
    meta: String,
}

fn is_inline_start(e: &Event) -> bool {
    match e {
        Event::Text(_) | Event::Code(_) | Event::InlineHtml(_) | Event::SoftBreak | Event::HardBreak
        | Event::InlineMath(_) | Event::DisplayMath(_) | Event::FootnoteReference(_) | Event::TaskListMarker(_) => true,
        Event::Start(t) => matches!(
            t,
            Tag::Emphasis | Tag::Strong | Tag::Strikethrough | Tag::Link { .. } | Tag::Image { .. } | Tag::Superscript | Tag::Subscript
        ),
        _ => false,
    }
}

pub fn is_external(url: &str) -> bool {
    // any `scheme://...` and mailto: are addresses outside the library
    let u = url.to_lowercase();
    let scheme = u.find("://").map(|at| &u[..at]).unwrap_or("");
    let has_scheme = scheme.starts_with(|c: char| c.is_ascii_alphabetic())
        && scheme.chars().all(|c| c.is_ascii_alphanumeric() || c == '+' || c == '-' || c == '.');
    has_scheme || u.starts_with("mailto:")
}

impl<'a> P<'a> {
    fn peek(&self) -> Option<&Event<'a>> {
        self.ev.get(self.i)
    }

    /// parse blocks until the matching End (consumed) or the end of input
    fn blocks(&mut self, until: Option<TagEnd>) -> Vec<Block> {
        let mut out = vec![];
        while let Some(e) = self.peek().cloned() {
            match e {
                Event::End(t) => {
                    self.i += 1;
                    if Some(t) == until {
                        return out;
                    }
                    // unbalanced: ignore
                }
                Event::Start(tag) => {
                    if is_inline_start(&Event::Start(tag.clone())) {
                        // inline content directly inside a container (tight list item)
                        let t = self.inlines_until_block();
                        out.push(Block { k: "P".into(), t, ..Default::default() });
                        continue;
                    }
                    self.i += 1;
                    match tag {
                        Tag::Paragraph => {
                            let t = self.inlines(TagEnd::Paragraph);
                            out.push(Block { k: "P".into(), t, ..Default::default() });
                        }
                        Tag::Heading { level, .. } => {
                            let t = self.inlines(TagEnd::Heading(level));
                            out.push(Block { k: "H".into(), l: level as u32, t, ..Default::default() });
                        }
                        Tag::BlockQuote(k) => {
                            let c = self.blocks(Some(TagEnd::BlockQuote(k)));
                            out.push(Block { k: "Q".into(), c, ..Default::default() });
                        }
                        Tag::CodeBlock(kind) => {
                            let mut body = String::new();
                            while let Some(e) = self.peek().cloned() {
                                self.i += 1;
                                match e {
                                    Event::Text(t) => body.push_str(&t),
                                    Event::End(TagEnd::CodeBlock) => break,
                                    _ => {}
                                }
                            }
                            let lang = match kind {
                                CodeBlockKind::Fenced(l) => l.to_string(),
                                CodeBlockKind::Indented => String::new(),
                            };
                            out.push(Block {
                                k: "Code".into(),
                                t: vec![w(body.trim_matches('\n'))],
                                x: lang.trim().to_string(),
                                ..Default::default()
                            });
                        }
                        Tag::HtmlBlock => {
                            let mut body = String::new();
                            while let Some(e) = self.peek().cloned() {
                                self.i += 1;
                                match e {
                                    Event::Html(t) | Event::Text(t) => body.push_str(&t),
                                    Event::End(TagEnd::HtmlBlock) => break,
                                    _ => {}
                                }
                            }
                            out.push(Block { k: "Html".into(), x: body, ..Default::default() });
                        }
                        Tag::List(start) => {
                            let ordered = start.is_some();
                            let mut items = vec![];
                            loop {
                                match self.peek().cloned() {
                                    Some(Event::Start(Tag::Item)) => {
                                        self.i += 1;
                                        items.push(self.blocks(Some(TagEnd::Item)));
                                    }
                                    Some(Event::End(TagEnd::List(_))) => {
                                        self.i += 1;
                                        break;
                                    }
                                    None => break,
                                    _ => {
                                        self.i += 1;
                                    }
                                }
                            }
                            out.push(Block { k: if ordered { "OL".into() } else { "BL".into() }, items, ..Default::default() });
                        }
                        Tag::Table(_) => {
                            let mut rows: Vec<Vec<Vec<Tok>>> = vec![];
                            loop {
                                match self.peek().cloned() {
                                    Some(Event::Start(Tag::TableHead)) | Some(Event::Start(Tag::TableRow)) => {
                                        self.i += 1;
                                        rows.push(vec![]);
                                    }
                                    Some(Event::Start(Tag::TableCell)) => {
                                        self.i += 1;
                                        let t = self.inlines(TagEnd::TableCell);
                                        if let Some(r) = rows.last_mut() {
                                            r.push(t);
                                        }
                                    }
                                    Some(Event::End(TagEnd::Table)) => {
                                        self.i += 1;
                                        break;
                                    }
                                    None => break,
                                    _ => {
                                        self.i += 1;
                                    }
                                }
                            }
                            out.push(Block { k: "Tbl".into(), rows, ..Default::default() });
                        }
                        Tag::MetadataBlock(_) => {
                            while let Some(e) = self.peek().cloned() {
                                self.i += 1;
                                match e {
                                    Event::Text(t) => self.meta.push_str(&t),
                                    Event::End(TagEnd::MetadataBlock(_)) => break,
                                    _ => {}
                                }
                            }
                        }
                        Tag::FootnoteDefinition(_) => {
                            let c = self.blocks(Some(TagEnd::FootnoteDefinition));
                            out.push(Block { k: "Foot".into(), c, ..Default::default() });
                        }
                        other => {
                            // definition lists etc. are not enabled; consume generically
                            let end = other.to_end();
                            let c = self.blocks(Some(end));
                            out.push(Block { k: "Other".into(), c, ..Default::default() });
                        }
                    }
                }
                Event::Rule => {
                    self.i += 1;
                    out.push(Block::new("Rule"));
                }
                Event::Html(t) => {
                    self.i += 1;
                    out.push(Block { k: "Html".into(), x: t.to_string(), ..Default::default() });
                }
                ref ie if is_inline_start(ie) => {
                    let t = self.inlines_until_block();
                    out.push(Block { k: "P".into(), t, ..Default::default() });
                }
                _ => {
                    self.i += 1;
                }
            }
        }
        out
    }

    /// inline events up to (not including) the next block-level event
    fn inlines_until_block(&mut self) -> Vec<Tok> {
        let mut toks = vec![];
        while let Some(e) = self.peek().cloned() {
            if !is_inline_start(&e) {
                break;
            }
            self.inline_one(&mut toks);
        }
        toks
    }

    fn inlines(&mut self, until: TagEnd) -> Vec<Tok> {
        let mut toks = vec![];
        while let Some(e) = self.peek().cloned() {
            if let Event::End(t) = &e {
                self.i += 1;
                if *t == until {
                    break;
                }
                continue;
            }
            if !is_inline_start(&e) {
                // block inside inline context should not happen; skip
                self.i += 1;
                continue;
            }
            self.inline_one(&mut toks);
        }
        toks
    }

    fn inline_one(&mut self, toks: &mut Vec<Tok>) {
        let e = self.peek().cloned().unwrap();
        self.i += 1;
        match e {
            Event::Text(t) => push_text(toks, &t),
            Event::Code(t) => toks.push(Tok { k: "Code".into(), s: t.to_string(), ..Default::default() }),
            Event::InlineHtml(t) => toks.push(Tok { k: "Html".into(), s: t.to_string(), ..Default::default() }),
            Event::SoftBreak => toks.push(tok("SB")),
            Event::HardBreak => toks.push(tok("HB")),
            Event::InlineMath(t) | Event::DisplayMath(t) => toks.push(Tok { k: "Math".into(), s: t.to_string(), ..Default::default() }),
            Event::FootnoteReference(t) => toks.push(Tok { k: "FootRef".into(), s: t.to_string(), ..Default::default() }),
            Event::TaskListMarker(b) => toks.push(Tok { k: "Task".into(), s: b.to_string(), ..Default::default() }),
            Event::Start(tag) => match tag {
                Tag::Emphasis => {
                    let c = self.inlines(TagEnd::Emphasis);
                    toks.push(Tok { k: "Em".into(), c, ..Default::default() });
                }
                Tag::Strong => {
                    let c = self.inlines(TagEnd::Strong);
                    toks.push(Tok { k: "St".into(), c, ..Default::default() });
                }
                Tag::Strikethrough => {
                    let c = self.inlines(TagEnd::Strikethrough);
                    toks.push(Tok { k: "Strike".into(), c, ..Default::default() });
                }
                Tag::Link { link_type, dest_url, .. } => {
                    let c = self.inlines(TagEnd::Link);
                    let url = dest_url.to_string();
                    let x = match link_type {
                        LinkType::WikiLink { has_pothole: true } => "piped",
                        LinkType::WikiLink { has_pothole: false } => "wiki",
                        LinkType::Autolink | LinkType::Email => "auto",
                        _ => {
                            if is_external(&url) {
                                "ext"
                            } else {
                                "inline"
                            }
                        }
                    };
                    toks.push(Tok { k: "Link".into(), s: url, c, x: x.into() });
                }
                Tag::Image { dest_url, .. } => {
                    let c = self.inlines(TagEnd::Image);
                    toks.push(Tok { k: "Img".into(), s: dest_url.to_string(), c, ..Default::default() });
                }
                other => {
                    let end = other.to_end();
                    let c = self.inlines(end);
                    toks.push(Tok { k: "Other".into(), c, ..Default::default() });
                }
            },
            _ => {}
        }
    }
}

/// text -> words and spaces (words are maximal runs of non-whitespace)
pub fn push_text(toks: &mut Vec<Tok>, text: &str) {
    let mut cur = String::new();
    for ch in text.chars() {
        if ch.is_whitespace() {
            if !cur.is_empty() {
                toks.push(w(&cur));
                cur.clear();
            }
            toks.push(sp());
        } else {
            cur.push(ch);
        }
    }
    if !cur.is_empty() {
        toks.push(w(&cur));
    }
}
