//! E-lib / C17: squash on TLC-generated reference graphs.

use std::collections::BTreeMap;
use std::io::{BufRead, Write};
use std::sync::mpsc;
use std::time::Duration;

use liwe::graph::{Graph, GraphContext};
use liwe::model::config::MarkdownOptions;
use liwe::model::node::Node;
use liwe::model::tree::{Tree, TreeIter};
use liwe::model::Key;
use serde_json::{json, Value};

use crate::absdoc::{Block, Tok};
use crate::docrun::catch;
use crate::libx::{key_str, parse_url, Keyed, Lib};
use crate::project::project;

fn first_word(s: &str) -> String {
    // (a section nested deeper than six levels is written as "####### text", which reads
    // back as a paragraph: the marker is not the text)
    s.split_whitespace().find(|w| !w.chars().all(|c| c == '#')).unwrap_or("").to_string()
}

/// number of Section nodes of the squashed tree (each is written with a heading marker)
fn tree_sections(t: &Tree) -> u64 {
    (if matches!(t.node, Node::Section(_)) { 1 } else { 0 }) + t.children.iter().map(tree_sections).sum::<u64>()
}

fn tree_bag(t: &Tree, bag: &mut BTreeMap<(String, String), u64>) {
    match &t.node {
        Node::Section(inl) | Node::Leaf(inl) => {
            let text = liwe::model::graph::to_plain_text(inl);
            *bag.entry(("text".into(), json!([first_word(&text)]).to_string())).or_insert(0) += 1;
        }
        Node::Reference(r) => {
            let segs: Vec<String> = r.key.to_string().split('/').map(|s| s.to_string()).collect();
            *bag.entry(("ref".into(), json!(segs).to_string())).or_insert(0) += 1;
        }
        _ => {}
    }
    for c in t.children.iter() {
        tree_bag(c, bag);
    }
}

fn toks_text(t: &[Tok]) -> String {
    t.iter().map(|x| if x.k == "W" { x.s.clone() } else { " ".into() }).collect()
}

fn md_bag(bs: &[Block], dir: &[String], bag: &mut BTreeMap<(String, String), u64>) {
    for b in bs {
        match b.k.as_str() {
            "H" | "P" => {
                if b.k == "P" && b.t.len() == 1 && b.t[0].k == "Link" {
                    // a block reference that was kept: resolve it from the root note's directory
                    let (u, _) = parse_url(&b.t[0].s);
                    let mut k: Vec<String> = dir.to_vec();
                    for _ in 0..u.up {
                        k.pop();
                    }
                    k.extend(u.segs.clone());
                    *bag.entry(("ref".into(), json!(k).to_string())).or_insert(0) += 1;
                } else {
                    *bag.entry(("text".into(), json!([first_word(&toks_text(&b.t))]).to_string())).or_insert(0) += 1;
                }
            }
            _ => {}
        }
        md_bag(&b.c, dir, bag);
        for it in b.items.iter() {
            md_bag(it, dir, bag);
        }
    }
}

fn bag_json(bag: &BTreeMap<(String, String), u64>) -> Value {
    json!(bag.iter().map(|((k, v), n)| json!({"kind":k,"v":serde_json::from_str::<Value>(v).unwrap(),"n":n})).collect::<Vec<_>>())
}

/// what the real `iwe squash -k <root> -d <depth>` prints for the library written to disk; `fillers` extra
/// notes nobody refers to are added (the output must not depend on how many notes the library has)
fn cli_squash(bin: &str, state: &std::collections::HashMap<String, String>, root: &str, depth: u8, fillers: usize, tag: usize) -> Option<String> {
    let dir = std::env::temp_dir().join(format!("vh-squash-{}-{}", std::process::id(), tag));
    let _ = std::fs::remove_dir_all(&dir);
    std::fs::create_dir_all(dir.join(".iwe")).unwrap();
    for (k, v) in state.iter() {
        let p = dir.join(format!("{}.md", k));
        std::fs::create_dir_all(p.parent().unwrap()).unwrap();
        std::fs::write(p, v).unwrap();
    }
    for i in 0..fillers {
        std::fs::write(dir.join(format!("filler{:03}.md", i)), format!("# Filler {}\n", i)).unwrap();
    }
    let out = std::process::Command::new(bin)
        .args(["squash", "-k", root, "-d", &depth.to_string()])
        .current_dir(&dir)
        .output()
        .ok()
        .filter(|o| o.status.success())
        .map(|o| String::from_utf8_lossy(&o.stdout).to_string());
    let _ = std::fs::remove_dir_all(&dir);
    out
}

/// `vh squash-replay <cases.ndjson> <events.ndjson> [--shard i/n] [--iwe <binary>]`
pub fn cmd_replay(args: &[String]) -> i32 {
    let mut shard = (0usize, 1usize);
    if args.len() > 3 && args[2] == "--shard" {
        let p: Vec<usize> = args[3].split('/').map(|s| s.parse().unwrap()).collect();
        shard = (p[0], p[1]);
    }
    std::panic::set_hook(Box::new(|_| {}));
    let f = std::fs::File::open(&args[0]).expect("cases");
    // append mode + a marker before every case: if a stack overflow kills this process the driver
    // sees which case it died on, records it and resumes after it (`--from <case>`)
    let from: usize = args.iter().position(|a| a == "--from").and_then(|i| args.get(i + 1)).and_then(|v| v.parse().ok()).unwrap_or(0);
    let mut out = std::io::BufWriter::new(std::fs::OpenOptions::new().create(true).append(true).open(&args[1]).expect("events"));
    let iwe: Option<String> = args.iter().position(|a| a == "--iwe").and_then(|i| args.get(i + 1)).cloned();
    let mut n = 0;
    for (ln, line) in std::io::BufReader::new(f).lines().enumerate() {
        let line = line.unwrap();
        if line.trim().is_empty() || ln % shard.1 != shard.0 || ln < from {
            continue;
        }
        writeln!(out, "{}", json!({"ev":"Begin","case":ln})).unwrap();
        out.flush().unwrap();
        let c: Value = serde_json::from_str(&line).unwrap();
        let docs: Vec<Keyed> = serde_json::from_value(c["docs"].clone()).unwrap();
        let root: Vec<String> = serde_json::from_value(c["root"].clone()).unwrap();
        let depth = c["depth"].as_u64().unwrap_or(0) as u8;
        let mut lib = Lib::new();
        for d in docs.iter() {
            lib.put(d);
        }
        let state = lib.state();
        let rootk = key_str(&root);
        let state_cli = state.clone();
        // run in a thread with a budget: non-termination is an observation, not a hung harness
        let (tx, rx) = mpsc::channel();
        let rk = rootk.clone();
        std::thread::Builder::new()
            .stack_size(256 * 1024 * 1024)
            .spawn(move || {
                let r = catch(std::panic::AssertUnwindSafe(|| {
                    let g = Graph::import(&state, MarkdownOptions::default());
                    let key = Key::from_file_name(&rk);
                    let tree = (&g).squash(&key, depth);
                    let mut tb = BTreeMap::new();
                    tree_bag(&tree, &mut tb);
                    let sections = tree_sections(&tree);
                    let mut patch = Graph::new();
                    patch.build_key_from_iter(&key, TreeIter::new(&tree));
                    let md = patch.export_key(&key).unwrap_or_default();
                    (tb, md, sections)
                }));
                let _ = tx.send(r);
            })
            .unwrap();
        let ev = match rx.recv_timeout(Duration::from_secs(60)) {
            Ok(Ok((tb, md, sections))) => {
                let mut mb = BTreeMap::new();
                let dir: Vec<String> = root[..root.len() - 1].to_vec();
                md_bag(&project(&md).blocks, &dir, &mut mb);
                // every 16th case, and every case deeper than 6, also through the command line tool; every 64th
                // in a library padded to 256 notes and the deep ones padded to 260
                let cli = match &iwe {
                    Some(bin) if ln % 16 == 0 || depth > 6 => {
                        let fillers = if depth > 6 { 260usize.saturating_sub(state_cli.len()) } else if ln % 64 == 0 { 256usize.saturating_sub(state_cli.len()) } else { 0 };
                        match cli_squash(bin, &state_cli, &rootk, depth, fillers, shard.0) {
                            Some(o) => if o == md { "same" } else { "differs" },
                            None => "failed",
                        }
                    }
                    _ => "skipped",
                };
                json!({"ev":"Squash","case":ln,"docs":c["docs"],"root":root,"depth":depth,"res":"ok","tree_bag":bag_json(&tb),"md_bag":bag_json(&mb),
                       "tree_sections":sections,"md_heading_lines":md.lines().filter(|l| l.starts_with('#')).count(),"cli":cli})
            }
            Ok(Err(p)) => json!({"ev":"Squash","case":ln,"docs":c["docs"],"root":root,"depth":depth,"res":format!("panic:{}", p.chars().take(80).collect::<String>().replace('"', "'")),"tree_bag":[],"md_bag":[]}),
            Err(_) => json!({"ev":"Squash","case":ln,"docs":c["docs"],"root":root,"depth":depth,"res":"hang","tree_bag":[],"md_bag":[]}),
        };
        writeln!(out, "{}", ev).unwrap();
        n += 1;
    }
    out.flush().unwrap();
    println!("{}", json!({"cases": n}));
    0
}
