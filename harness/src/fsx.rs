//! E-fs helper: the in-memory export that `iwe normalize` is supposed to write (C19).
//! Input (stdin): {"notes":[{"id":"<path>","key":"<key>","text":"..."}], "refs_extension": ""}
//! Output: {"new": {"<id>": "<text>"}, "collisions": [..]}

use std::collections::HashMap;
use std::io::Read;

use liwe::graph::Graph;
use liwe::model::config::MarkdownOptions;
use serde_json::{json, Value};

pub fn cmd_export(_args: &[String]) -> i32 {
    let mut inp = String::new();
    std::io::stdin().read_to_string(&mut inp).unwrap();
    let v: Value = serde_json::from_str(&inp).expect("json");
    let mut state: HashMap<String, String> = HashMap::new();
    let mut ids: HashMap<String, Vec<String>> = HashMap::new();
    for n in v["notes"].as_array().unwrap() {
        let key = n["key"].as_str().unwrap().trim_end_matches(".md").to_string();
        ids.entry(key.clone()).or_default().push(n["id"].as_str().unwrap().to_string());
        state.insert(key, n["text"].as_str().unwrap().to_string());
    }
    let collisions: Vec<String> = ids.iter().filter(|(_, v)| v.len() > 1).map(|(k, _)| k.clone()).collect();
    let res = std::panic::catch_unwind(|| {
        let g = Graph::import(
            &state,
            MarkdownOptions {
                refs_extension: v["refs_extension"].as_str().unwrap_or("").to_string(),
            },
        );
        g.export()
    });
    match res {
        Ok(exp) => {
            let mut out = serde_json::Map::new();
            for (k, idv) in ids.iter() {
                if let Some(t) = exp.get(k) {
                    for id in idv {
                        out.insert(id.clone(), json!(t));
                    }
                }
            }
            println!("{}", json!({"new": out, "collisions": collisions}));
            0
        }
        Err(_) => {
            println!("{}", json!({"panic": true}));
            0
        }
    }
}
