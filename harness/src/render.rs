//! Renderer: abstract document -> Markdown text, in several presentation variants.
//! Every rendering is self-checked by the caller (project(render(d)) == d), so a renderer
//! bug can only reduce coverage, never raise an alarm.

use crate::absdoc::*;

#[derive(Clone, Debug)]
pub struct Variant {
    pub name: String,
    pub setext: bool,
    pub bullet: char,
    pub ordered_paren: bool,
    pub tight: bool,
    pub fence: &'static str, // "```", "~~~" or "" = indented
    pub rule: &'static str,
    pub crlf: bool,
    pub hard_backslash: bool,
    pub star_emph: bool,
}

pub fn variants() -> Vec<Variant> {
    vec![
        Variant { name: "loose-atx".into(), setext: false, bullet: '-', ordered_paren: false, tight: false, fence: "```", rule: "---", crlf: false, hard_backslash: false, star_emph: true },
        Variant { name: "tight-setext".into(), setext: true, bullet: '*', ordered_paren: true, tight: true, fence: "~~~", rule: "***", crlf: false, hard_backslash: true, star_emph: false },
        Variant { name: "tight-atx-indent".into(), setext: false, bullet: '+', ordered_paren: false, tight: true, fence: "", rule: "___", crlf: false, hard_backslash: false, star_emph: true },
        Variant { name: "loose-crlf".into(), setext: true, bullet: '-', ordered_paren: false, tight: false, fence: "```", rule: "* * *", crlf: true, hard_backslash: true, star_emph: true },
    ]
}

/// the same presentation with the other bullet character and the other ordered delimiter
pub fn other_markers(v: &Variant) -> Variant {
    let mut o = v.clone();
    o.bullet = if v.bullet == '-' { '*' } else { '-' };
    o.ordered_paren = !v.ordered_paren;
    o
}

pub fn variant(name: &str) -> Variant {
    variants().into_iter().find(|v| v.name == name).unwrap_or_else(|| variants()[0].clone())
}

const PUNCT: &str = "!\"#$%&'()*+,-./:;<=>?@[\\]^_`{|}~";

fn esc_word(s: &str) -> String {
    let mut out = String::new();
    for ch in s.chars() {
        if PUNCT.contains(ch) {
            out.push('\\');
        }
        out.push(ch);
    }
    out
}

fn code_span(s: &str) -> String {
    // longest backtick run inside decides the delimiter
    let mut longest = 0;
    let mut cur = 0;
    for ch in s.chars() {
        if ch == '`' {
            cur += 1;
            longest = longest.max(cur);
        } else {
            cur = 0;
        }
    }
    let d = "`".repeat(longest + 1);
    if s.starts_with('`') || s.ends_with('`') || (s.starts_with(' ') && s.ends_with(' ') && !s.trim().is_empty()) {
        format!("{} {} {}", d, s, d)
    } else {
        format!("{}{}{}", d, s, d)
    }
}

fn dest(url: &str) -> String {
    if url.is_empty() || url.contains(' ') || url.contains('(') || url.contains(')') || url.contains('<') {
        format!("<{}>", url)
    } else {
        url.to_string()
    }
}

pub fn inlines(toks: &[Tok], v: &Variant) -> String {
    let mut out = String::new();
    for t in toks {
        match t.k.as_str() {
            "W" => out.push_str(&esc_word(&t.s)),
            "SP" => out.push(' '),
            "SB" => out.push('\n'),
            "HB" => out.push_str(if v.hard_backslash { "\\\n" } else { "  \n" }),
            "Code" => out.push_str(&code_span(&t.s)),
            "Em" => {
                let m = if v.star_emph { "*" } else { "_" };
                out.push_str(&format!("{}{}{}", m, inlines(&t.c, v), m));
            }
            "St" => {
                let m = if v.star_emph { "**" } else { "__" };
                out.push_str(&format!("{}{}{}", m, inlines(&t.c, v), m));
            }
            "Link" => match t.x.as_str() {
                "auto" => out.push_str(&format!("<{}>", t.s)),
                "wiki" => out.push_str(&format!("[[{}]]", t.s)),
                "piped" => out.push_str(&format!("[[{}|{}]]", t.s, inlines(&t.c, v))),
                _ => out.push_str(&format!("[{}]({})", inlines(&t.c, v), dest(&t.s))),
            },
            "Img" => out.push_str(&format!("![{}]({})", inlines(&t.c, v), dest(&t.s))),
            "Html" => out.push_str(&t.s),
            _ => {}
        }
    }
    out
}

fn has_break(toks: &[Tok]) -> bool {
    toks.iter().any(|t| t.k == "SB" || t.k == "HB" || has_break(&t.c))
}

/// render a sequence of sibling blocks to lines (no trailing blank line)
pub fn blocks(bs: &[Block], v: &Variant, tight_ctx: bool) -> Vec<String> {
    let mut out: Vec<String> = vec![];
    let mut alt = false;
    for (i, b) in bs.iter().enumerate() {
        // two lists of the same kind in a row are two lists only if their markers differ
        alt = i > 0 && (b.k == "BL" || b.k == "OL") && bs[i - 1].k == b.k && !alt;
        let lines = if alt { block(b, &other_markers(v), i > 0 && bs[i - 1].k == "P") } else { block(b, v, i > 0 && bs[i - 1].k == "P") };
        if i > 0 {
            let tight_ok = tight_ctx && v.tight;
            if !tight_ok {
                out.push(String::new());
            }
        }
        out.extend(lines);
    }
    out
}

fn block(b: &Block, v: &Variant, after_para: bool) -> Vec<String> {
    match b.k.as_str() {
        "H" => {
            let text = inlines(&b.t, v);
            if (v.setext || has_break(&b.t)) && b.l <= 2 && !text.is_empty() {
                let mut l: Vec<String> = text.split('\n').map(|s| s.to_string()).collect();
                l.push(if b.l == 1 { "===".into() } else { "---".into() });
                l
            } else {
                vec![format!("{} {}", "#".repeat(b.l as usize), text).trim_end().to_string()]
            }
        }
        "P" => inlines(&b.t, v).split('\n').map(|s| s.to_string()).collect(),
        "Code" => {
            let body = b.t.first().map(|t| t.s.clone()).unwrap_or_default();
            if v.fence.is_empty() && b.x.is_empty() && !after_para && !body.is_empty() {
                body.split('\n').map(|l| if l.is_empty() { String::new() } else { format!("    {}", l) }).collect()
            } else {
                let f = if v.fence.is_empty() { "```" } else { v.fence };
                // a body that contains a fence line needs a longer fence around it
                let c = f.chars().next().unwrap();
                let longest = body
                    .split('\n')
                    .map(|l| l.trim_start())
                    .filter(|l| l.starts_with(f))
                    .map(|l| l.chars().take_while(|x| *x == c).count())
                    .max()
                    .unwrap_or(0);
                let f = if longest >= f.len() { c.to_string().repeat(longest + 1) } else { f.to_string() };
                let f = f.as_str();
                let mut l = vec![format!("{}{}", f, b.x)];
                if !body.is_empty() {
                    l.extend(body.split('\n').map(|s| s.to_string()));
                }
                l.push(f.to_string());
                l
            }
        }
        "Rule" => vec![v.rule.to_string()],
        "Html" => b.x.trim_end_matches('\n').split('\n').map(|s| s.to_string()).collect(),
        "Q" => {
            let inner: Vec<String> = blocks(&b.c, v, false)
                .into_iter()
                .map(|l| if l.is_empty() { ">".to_string() } else { format!("> {}", l) })
                .collect();
            // an empty quote is a line holding only the marker
            if inner.is_empty() { vec![">".to_string()] } else { inner }
        }
        "BL" | "OL" => {
            let mut out = vec![];
            for (n, item) in b.items.iter().enumerate() {
                let marker = if b.k == "BL" {
                    format!("{} ", v.bullet)
                } else {
                    format!("{}{} ", n + 1, if v.ordered_paren { ')' } else { '.' })
                };
                let pad = " ".repeat(marker.len());
                let mut lines = blocks(item, v, true);
                // "- ---" / "* ***" are themselves rules: a rule that opens an item (directly or through leading
                // bullet markers) is written with underscores
                if let Some(first) = lines.first_mut() {
                    let rest = first.trim_start_matches(|c: char| c == '-' || c == '*' || c == '+' || c == ' ');
                    if rest.is_empty() && first.chars().filter(|c| *c != ' ').count() >= 3 {
                        let keep = first.len() - first.trim_start_matches(|c: char| c == ' ').len();
                        let body: String = first[keep..].to_string();
                        // keep leading list markers ("- " pairs), replace the trailing rule characters
                        let markers: String = body.split(' ').take_while(|t| t.len() == 1).map(|t| format!("{} ", t)).collect();
                        *first = format!("{}{}___", " ".repeat(keep), markers);
                    }
                }
                if n > 0 && !v.tight {
                    out.push(String::new());
                }
                if lines.is_empty() {
                    out.push(marker.trim_end().to_string());
                }
                for (i, l) in lines.iter().enumerate() {
                    if i == 0 {
                        out.push(format!("{}{}", marker, l).trim_end().to_string());
                    } else if l.is_empty() {
                        out.push(String::new());
                    } else {
                        out.push(format!("{}{}", pad, l));
                    }
                }
            }
            out
        }
        "Tbl" => {
            let mut out = vec![];
            for (r, row) in b.rows.iter().enumerate() {
                // (inside a table a pipe is escaped wherever it stands, also within a code span)
                let cells: Vec<String> = row.iter().map(|c| escape_pipes(&inlines(c, v).replace('\n', " "))).collect();
                out.push(format!("| {} |", cells.join(" | ")));
                if r == 0 {
                    out.push(format!("|{}|", row.iter().map(|_| "---").collect::<Vec<_>>().join("|")));
                }
            }
            out
        }
        _ => vec![],
    }
}

/// every `|` that is not already escaped gets a backslash
fn escape_pipes(s: &str) -> String {
    let mut out = String::new();
    let mut prev_backslash = false;
    for c in s.chars() {
        if c == '|' && !prev_backslash {
            out.push('\\');
        }
        prev_backslash = c == '\\' && !prev_backslash;
        out.push(c);
    }
    out
}

pub fn render(d: &Doc, v: &Variant) -> String {
    let mut lines: Vec<String> = vec![];
    if !d.meta.is_empty() {
        lines.push("---".into());
        lines.extend(d.meta.trim_end_matches('\n').split('\n').map(|s| s.to_string()));
        lines.push("---".into());
        lines.push(String::new());
    }
    lines.extend(blocks(&d.blocks, v, false));
    let nl = if v.crlf { "\r\n" } else { "\n" };
    let mut s = lines.join(nl);
    s.push_str(nl);
    s
}
