\* TEETH: TLC must reject this configuration (headings after the leading list of an item appended flat)
\* every document of <= 5 nodes over paragraphs, headings, code, references, empty items, lists and quotes (depth <= 3)
SPECIFICATION SpecB
CONSTANTS
  Slip <- SlipAppendFlat
  LeafKinds <- BLeaves
  ContKinds <- BConts
  MaxNodes = 5
  MaxDepth = 2
INVARIANT Built
CHECK_DEADLOCK FALSE
