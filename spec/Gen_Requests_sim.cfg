SPECIFICATION Spec
CONSTANT SeqLen = 5
INVARIANT Emit
CHECK_DEADLOCK FALSE
