SPECIFICATION GSpec
CONSTANTS
  GKeys = {1, 2}
  MaxOps = 3
  NTrees = 13
INVARIANT Emit
CHECK_DEADLOCK FALSE
