-------------------------------- MODULE Keys --------------------------------
(***************************************************************************)
(* Note keys, directories and relative link urls as path algebra           *)
(* (crates/liwe/src/model.rs:43-89, RelativePath::join / relative).        *)
(*                                                                         *)
(*   Key  == a non-empty sequence of path segments, <<"d", "e", "3">> is   *)
(*           the note d/e/3 (file d/e/3.md)                                *)
(*   Dir  == a sequence of segments (<<>> = the library root)              *)
(*   Url  == [up, segs, md, dot]: `up` leading "..", then `segs`, written  *)
(*           with a "./" prefix if dot, with ".md" appended if md.         *)
(*           External urls (http:, https:, mailto:) are not Urls here.     *)
(*                                                                         *)
(* Ideal level: Resolve normalises.  Implementation-shaped level:          *)
(* ImplResolve is what Key::from_rel_link_url does today: it joins without *)
(* normalising, so "../2" from d/ is the key d/../2.                       *)
(***************************************************************************)
EXTENDS Naturals, Sequences, SequencesExt

Dir(key) == SubSeq(key, 1, Len(key) - 1)

NoKey == <<"<unresolvable>">>

\* walking the segments of a url from a directory: ".." goes up (and cannot leave the library),
\* "." stays; the result is <<ok, path>>
RECURSIVE Walk(_, _)
Walk(stack, segs) ==
    IF segs = <<>> THEN <<TRUE, stack>>
    ELSE IF Head(segs) = "." THEN Walk(stack, Tail(segs))
    ELSE IF Head(segs) = ".."
         THEN (IF stack = <<>> THEN <<FALSE, <<>>>> ELSE Walk(SubSeq(stack, 1, Len(stack) - 1), Tail(segs)))
    ELSE Walk(Append(stack, Head(segs)), Tail(segs))

\* the note a link written in a note of directory d points to ("." and ".." may also stand
\* between names: sub/../2 from d/ is d/2)
Resolve(d, u) ==
    IF u.segs = <<>> \/ u.up > Len(d) THEN NoKey
    ELSE LET w == Walk(SubSeq(d, 1, Len(d) - u.up), u.segs)
         IN  IF ~w[1] \/ w[2] = <<>> THEN NoKey ELSE w[2]

\* longest common prefix length
RECURSIVE Common(_, _)
Common(a, b) == IF a = <<>> \/ b = <<>> \/ Head(a) # Head(b) THEN 0 ELSE 1 + Common(Tail(a), Tail(b))

\* the url iwe should write to point at key k from a note in directory d
\* (RelativePath::new(d).relative(k)): up out of d to the common ancestor, then down
\* (the last segment of a key is a file name, never part of the common directory prefix:
\* the note a seen from the directory a/ is "../a")
ToRel(k, d) ==
    LET c == Common(Dir(k), d)
    IN  [up |-> Len(d) - c, segs |-> SubSeq(k, c + 1, Len(k)), md |-> FALSE, dot |-> FALSE]

\* C15 -----------------------------------------------------------------------
RoundTrip(k, d) == Resolve(d, ToRel(k, d)) = k

\* resolving a link and re-writing it from the same directory yields an equivalent link
StableRewrite(u, d) ==
    Resolve(d, u) # NoKey => Resolve(d, ToRel(Resolve(d, u), d)) = Resolve(d, u)

\* implementation-shaped: join without normalisation.  Keys are then compared as
\* written, so a url with ".." never equals a real key.
ImplResolveEqualsIdeal(d, u) == u.up = 0 /\ ~u.dot
=============================================================================
