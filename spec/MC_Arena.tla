------------------------------ MODULE MC_Arena ------------------------------
(***************************************************************************)
(* Model-checking instance of Arena.tla: a catalogue of note shapes that   *)
(* between them contain every node kind and every place where a kind can   *)
(* be followed by a sibling (the places where delete_branch must follow    *)
(* `next`).                                                                *)
(***************************************************************************)
EXTENDS Arena

T(k, c) == [k |-> k, c |-> c]
Lf(k) == T(k, <<>>)
\* a Reference node pointing at note t; a leaf whose text links to the notes rs
Rf(t) == [k |-> "R", c |-> <<>>, tgt |-> t]
Ll(rs) == [k |-> "L", c |-> <<>>, refs |-> rs]

T1 == T("D", <<T("S", <<Ll(<<2>>)>>)>>)
T2 == T("D", <<T("S", <<Lf("L"), T("S", <<Ll(<<1, 9>>)>>), T("S", <<Rf(2)>>)>>)>>)
T3 == T("D", <<Lf("L"), T("BL", <<T("S", <<>>), T("S", <<Ll(<<1>>)>>)>>), Rf(1)>>)
T4 == T("D", <<T("S", <<[k |-> "T", c |-> <<>>, refs |-> <<2>>], Lf("L"), Rf(1)>>)>>)
T5 == T("D", <<T("Q", <<Ll(<<2>>), Lf("L")>>), Rf(9)>>)
T6 == T("D", <<T("S", <<T("OL", <<T("S", <<T("BL", <<T("S", <<>>)>>)>>)>>), Lf("Raw"), Lf("HR"), Rf(2), Ll(<<1>>)>>)>>)
T7 == T("D", <<>>)

CatSmall == {T1, T3, T4, T7}
CatFull == {T1, T2, T3, T4, T5, T6, T7}
=============================================================================
