------------------------------ MODULE MC_Arena ------------------------------
(***************************************************************************)
(* Model-checking instance of Arena.tla: a catalogue of note shapes that   *)
(* between them contain every node kind and every place where a kind can   *)
(* be followed by a sibling (the places where delete_branch must follow    *)
(* `next`).                                                                *)
(***************************************************************************)
EXTENDS Arena

T(k, c) == [k |-> k, c |-> c]
Lf(k) == T(k, <<>>)

T1 == T("D", <<T("S", <<Lf("L")>>)>>)
T2 == T("D", <<T("S", <<Lf("L"), T("S", <<Lf("L")>>), T("S", <<Lf("R")>>)>>)>>)
T3 == T("D", <<Lf("L"), T("BL", <<T("S", <<>>), T("S", <<Lf("L")>>)>>), Lf("L")>>)
T4 == T("D", <<T("S", <<Lf("T"), Lf("L"), Lf("R")>>)>>)
T5 == T("D", <<T("Q", <<Lf("L"), Lf("L")>>), Lf("R")>>)
T6 == T("D", <<T("S", <<T("OL", <<T("S", <<T("BL", <<T("S", <<>>)>>)>>)>>), Lf("Raw"), Lf("HR")>>)>>)
T7 == T("D", <<>>)

CatSmall == {T1, T3, T4, T7}
CatFull == {T1, T2, T3, T4, T5, T6, T7}
=============================================================================
