\* EXPECTED TO FAIL: x.md.md is written to x.md (key rule of the code)
SPECIFICATION Spec
CONSTANTS
  Notes <- MCNotes
  MdMd <- MCMdMd
  Others <- MCOthers
  MaxChunks = 2
  Protocol = "tmprename"
  KeyRule = "trimall"
INVARIANTS TypeOK Intact InPlace NothingElseTouched
CHECK_DEADLOCK FALSE
