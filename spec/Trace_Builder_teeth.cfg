\* TEETH of the binding: with this slip switched on in the model, the real arenas must be reported as differing
SPECIFICATION TSpec
CONSTANTS
  Slip = {"list-insert-left-on"}
POSTCONDITION Accepted
CHECK_DEADLOCK FALSE
