-------------------------------- MODULE Uri --------------------------------
(***************************************************************************)
(* C14: a file on disk, its file:// URI and its note key name one note.    *)
(*                                                                         *)
(* A file name is a sequence of character classes; what matters about a    *)
(* character is how the three namings treat it:                            *)
(*   "plain"   letters, digits                                             *)
(*   "space"   must be percent-encoded in a URI                            *)
(*   "uni"     non-ASCII, percent-encoded as UTF-8 bytes in a URI          *)
(*   "pct"     a literal % (encoded as %25)                                *)
(*   "hash" "qmark"  delimiters of URI components (# ?)                    *)
(*   "plus" "amp" "dot" "colon" "tilde"  legal in both, sometimes special  *)
(*   "bslash" "bracket"  \ and [ : encoded in a URI, \ is a path separator  *)
(*             on other systems                                            *)
(* Ideal: Decode(Encode(n)) = n for every name, so the note addressed by   *)
(* the editor's URI is the loaded one.  Implementation-shaped: the server  *)
(* at the pinned commit trims the base path from the *encoded* URI without *)
(* decoding (ImplKeyOfUri) and builds URIs with Url::join on the raw key   *)
(* (ImplUriOfKey), which reads "#", "?" as delimiters and "x:" as a scheme.*)
(***************************************************************************)
EXTENDS Naturals, Sequences, FiniteSets, TLC

Classes == {"plain", "space", "uni", "pct", "hash", "qmark", "plus", "amp", "dot", "colon", "bslash", "bracket", "tilde"}
NeedsEncoding == {"space", "uni", "pct", "hash", "qmark", "bslash", "bracket"}

\* a URI is the name with every class that needs it marked as encoded
Encode(n) == [i \in 1..Len(n) |-> IF n[i] \in NeedsEncoding THEN <<"enc", n[i]>> ELSE <<"raw", n[i]>>]
Decode(u) == [i \in 1..Len(u) |-> u[i][2]]

\* ideal: the key of a URI is the decoded name
KeyOfUri(u) == Decode(u)
\* the pinned implementation compares the encoded text with keys: an encoded character is
\* not the character
ImplKeyOfUri(u) == [i \in 1..Len(u) |-> IF u[i][1] = "enc" THEN "other" ELSE u[i][2]]

OneNote(n) == KeyOfUri(Encode(n)) = n
ImplOneNote(n) == ImplKeyOfUri(Encode(n)) = n

\* Url::join(raw key): cut at the first "#" or "?" and misread a leading "x:" as a scheme
ImplUriOfKeyOK(n) == \A i \in 1..Len(n) : n[i] \notin {"hash", "qmark", "colon", "pct"}
=============================================================================
