------------------------------ MODULE Gen_Lib ------------------------------
(***************************************************************************)
(* Generator of libraries and edit histories (spec -> implementation,      *)
(* E-lib: C04, C05, C06, C17, C18, C20).                                   *)
(*                                                                         *)
(* The state is docs : Key -> Note as in Lib.tla.  The actions are those   *)
(* of the ideal library: Start (the server loads an initial library),      *)
(* Update(k, v) (didChange / didSave of an existing note) and Insert(k, v) *)
(* (a new file).  Every note text comes from a catalogue of variants,      *)
(* chosen so that each cache of the implementation is toggled: a title     *)
(* that appears / changes / disappears, block references and inline links  *)
(* that appear / move / disappear, references after a table, in list       *)
(* items, in quotes and emphasis, to missing notes, to the note itself,    *)
(* twice to the same note, with "./", "../" and ".md" url forms, wiki and  *)
(* piped links, external urls.  Every reachable history is printed.        *)
(***************************************************************************)
EXTENDS Naturals, Sequences, FiniteSets, TLC, Json

CONSTANTS InitVariants, Init3Variants, StepVariants, StepKeys, MaxSteps

K1 == <<"1">>
K2 == <<"2">>
K3 == <<"d", "3">>
K4 == <<"d", "4">>      \* only ever inserted
K5 == <<"d2">>          \* only ever inserted; a root note whose name starts like the directory d/
K6 == <<"d", "e", "6">> \* only ever inserted; two directories deep
MISSING == <<"nosuch">>

U(up, segs, md, dot) == [up |-> up, segs |-> segs, md |-> md, dot |-> dot]

\* url written in a note of directory d for key k (plain relative form)
RECURSIVE Common(_, _)
Common(a, b) == IF a = <<>> \/ b = <<>> \/ Head(a) # Head(b) THEN 0 ELSE 1 + Common(Tail(a), Tail(b))
Dir(k) == SubSeq(k, 1, Len(k) - 1)
Rel(k, d) == LET c == Common(Dir(k), d) IN U(Len(d) - c, SubSeq(k, c + 1, Len(k)), FALSE, FALSE)

L(url, kind, text) == [url |-> url, kind |-> kind, text |-> text, ext |-> FALSE]
X(u, text) == [url |-> U(0, <<u>>, FALSE, FALSE), kind |-> "inline", text |-> text, ext |-> TRUE]
LB(k, lvl, text, links) == [k |-> k, lvl |-> lvl, text |-> text, links |-> links]

KeyName(k) == IF k = K1 THEN "n1" ELSE IF k = K2 THEN "n2" ELSE IF k = K3 THEN "n3" ELSE IF k = K4 THEN "n4"
              ELSE IF k = K5 THEN "n5" ELSE "n6"

\* the two notes a note links to
A(k) == IF k = K1 THEN K2 ELSE IF k = K2 THEN K1 ELSE IF k = K3 THEN K2 ELSE IF k = K6 THEN K3 ELSE K1
Bk(k) == IF k = K1 THEN K3 ELSE IF k = K2 THEN K6 ELSE IF k = K3 THEN K5 ELSE IF k = K6 THEN K1 ELSE K2

\* variant v of the note with key k; texts carry key and variant so that they are unique
Note(k, v) ==
    LET n == KeyName(k) \o "v" \o ToString(v)
        d == Dir(k)
        a == Rel(A(k), d)
        b == Rel(Bk(k), d)
        P(s, links) == LB("P", 0, n \o s, links)
    IN
    CASE v = 0 -> [title |-> "T" \o n, blocks |-> <<P("p", <<>>)>>]
      [] v = 1 -> [title |-> "", blocks |-> <<P("p", <<>>)>>]                                   \* no heading
      [] v = 2 -> [title |-> "U" \o n, blocks |-> <<P("p", <<>>), LB("Ref", 0, n \o "r", <<L(a, "inline", n \o "ra")>>)>>]
      [] v = 3 -> [title |-> "T" \o n, blocks |-> <<P("p", <<L(a, "inline", n \o "la")>>), P("q", <<L(b, "inline", n \o "lb")>>)>>]
      [] v = 4 -> [title |-> "T" \o n, blocks |-> <<LB("Tbl", 0, n \o "t", <<L(b, "inline", n \o "tc")>>),
                                                      LB("Ref", 0, n \o "r", <<L(a, "inline", n \o "ra")>>),
                                                      P("after", <<L(b, "inline", n \o "lb")>>)>>]
      [] v = 5 -> [title |-> "T" \o n, blocks |-> <<LB("Item", 0, n \o "i", <<L(a, "inline", n \o "ia")>>),
                                                      LB("Sub", 0, n \o "s", <<L(b, "inline", n \o "sb")>>),
                                                      LB("Item", 0, n \o "j", <<>>)>>]
      [] v = 6 -> [title |-> "T" \o n, blocks |-> <<LB("H", 2, n \o "h2", <<>>),
                                                      LB("Ref", 0, n \o "r", <<L(a, "inline", n \o "ra")>>),
                                                      LB("H", 3, n \o "h3", <<>>), P("deep", <<>>),
                                                      LB("H", 2, n \o "g2", <<L(b, "inline", n \o "hb")>>)>>]
      [] v = 7 -> [title |-> "T" \o n, blocks |-> <<LB("Ref", 0, n \o "r", <<L(a, "inline", n \o "ra")>>),
                                                      LB("Ref", 0, n \o "s", <<L(U(a.up, a.segs, TRUE, FALSE), "inline", n \o "sa")>>),
                                                      P("self", <<L(Rel(k, d), "inline", n \o "me")>>),
                                                      LB("Ref", 0, n \o "own", <<L(Rel(k, d), "inline", n \o "ow")>>)>>]   \* a block reference to the note itself
      [] v = 8 -> [title |-> "T" \o n, blocks |-> <<LB("Quote", 0, n \o "q", <<L(a, "inline", n \o "qa")>>),
                                                      LB("Em", 0, n \o "e", <<L(U(b.up, b.segs, FALSE, b.up = 0), "inline", n \o "eb")>>),
                                                      LB("Em2", 0, n \o "f", <<L(a, "inline", n \o "fa")>>),
                                                      LB("Img", 0, n \o "g", <<L(b, "inline", n \o "gb")>>)>>]   \* a link inside the alternative text of an image
      [] v = 10 -> [title |-> "T" \o n, blocks |-> <<LB("Code", 0, n \o "c", <<>>),
                                                       LB("Ref", 0, n \o "r", <<L(a, "inline", n \o "ra")>>),
                                                       LB("Rule", 0, "", <<>>),
                                                       P("afterrule", <<L(b, "inline", n \o "lb")>>),
                                                       LB("Quote", 0, n \o "q", <<>>),
                                                       LB("Ref", 0, n \o "s", <<L(b, "inline", n \o "sb")>>)>>]
      [] v = 11 -> [title |-> "T" \o n, blocks |-> <<P("intro", <<>>),
                                                       LB("H", 2, n \o "a2", <<>>), P("ap", <<L(a, "inline", n \o "al")>>),
                                                       LB("Item", 0, n \o "i1", <<>>), LB("Item", 0, n \o "i2", <<L(b, "inline", n \o "il")>>),
                                                       LB("H", 3, n \o "b3", <<>>), P("bp", <<>>), LB("Ref", 0, n \o "r", <<L(a, "inline", n \o "ra")>>),
                                                       LB("H", 2, n \o "c2", <<>>), LB("Code", 0, n \o "code", <<>>),
                                                       LB("Quote", 0, n \o "q", <<>>), LB("Tbl", 0, n \o "t", <<L(b, "inline", n \o "tl")>>)>>]
      [] v = 12 -> [title |-> "T" \o n, blocks |-> <<LB("OItem", 0, n \o "o1", <<>>), LB("OItem", 0, n \o "o2", <<L(a, "inline", n \o "ol")>>),
                                                       LB("Sub", 0, n \o "s1", <<>>), LB("Sub", 0, n \o "s2", <<>>),
                                                       P("mid", <<>>),
                                                       LB("Item", 0, n \o "i1", <<>>), LB("Sub", 0, n \o "s3", <<>>), LB("Item", 0, n \o "i2", <<>>),
                                                       LB("H", 2, n \o "h2", <<>>), LB("Ref", 0, n \o "r", <<L(b, "inline", n \o "rb")>>),
                                                       LB("Ref", 0, n \o "m", <<L(Rel(MISSING, d), "inline", n \o "mm")>>)>>]
      [] v = 13 -> [title |-> "", blocks |-> <<LB("Ref", 0, n \o "r", <<L(a, "inline", n \o "ra")>>), P("p", <<>>),
                                                LB("Item", 0, n \o "i1", <<>>)>>]                 \* no title: a reference outside any section
      [] v = 14 -> [title |-> "T" \o n, blocks |-> <<LB("H", 2, n \o "sa", <<>>), P("pa", <<>>),
                                                       LB("H", 2, n \o "sb", <<>>), P("pb", <<L(a, "inline", n \o "lb")>>), LB("H", 3, n \o "sb3", <<>>), P("pb3", <<>>),
                                                       LB("H", 2, n \o "sc", <<>>), LB("Ref", 0, n \o "r", <<L(b, "inline", n \o "rb")>>),
                                                       LB("H", 2, n \o "sd", <<>>), P("pd", <<>>)>>]
      [] v = 15 -> [title |-> "T" \o n, blocks |-> <<LB("Item", 0, n \o "i1", <<>>), LB("CodeItem", 0, n \o "ci", <<>>),
                                                       LB("QuoteItem", 0, n \o "qi", <<>>), LB("Item", 0, n \o "i2", <<L(a, "inline", n \o "il")>>),
                                                       P("tail", <<>>)>>]
      \* front matter (a first block of kind "Meta"), sections to extract, a reference to inline, a list to convert
      [] v = 16 -> [title |-> "T" \o n, blocks |-> <<LB("Meta", 0, n \o "meta", <<>>), P("intro", <<>>),
                                                       LB("H", 2, n \o "a2", <<>>), P("ap", <<L(a, "inline", n \o "al")>>),
                                                       LB("Ref", 0, n \o "r", <<L(b, "inline", n \o "rb")>>),
                                                       LB("H", 2, n \o "b2", <<>>), LB("Item", 0, n \o "i1", <<>>), LB("Item", 0, n \o "i2", <<>>)>>]
      \* a block quote that contains sections of its own ("QH" = heading inside the quote, "QP" = paragraph inside it;
      \* consecutive QH / QP blocks form one quote)
      [] v = 17 -> [title |-> "T" \o n, blocks |-> <<P("intro", <<>>),
                                                       LB("QH", 1, n \o "q1", <<>>), LB("QP", 0, n \o "qp", <<>>),
                                                       LB("QH", 2, n \o "q2", <<>>), LB("QP", 0, n \o "qq", <<L(a, "inline", n \o "ql")>>),
                                                       P("tail", <<>>)>>]
      \* three lists in a row (bullet, ordered, bullet): changing the type of the middle one makes three of a kind
      [] v = 18 -> [title |-> "T" \o n, blocks |-> <<LB("Item", 0, n \o "i1", <<>>), LB("Item", 0, n \o "i2", <<>>),
                                                       LB("OItem", 0, n \o "o1", <<L(a, "inline", n \o "ol")>>), LB("OItem", 0, n \o "o2", <<>>),
                                                       LB("Item", 0, n \o "i3", <<>>), LB("Item", 0, n \o "i4", <<>>),
                                                       P("tail", <<>>)>>]
      \* block references that lead to no heading: inside a quote ("QRef") and as the second paragraph of a list item ("IRef")
      [] v = 19 -> [title |-> "T" \o n, blocks |-> <<P("p", <<>>),
                                                       LB("QRef", 0, n \o "qr", <<L(a, "inline", n \o "qa")>>),
                                                       LB("IRef", 0, n \o "ir", <<L(b, "inline", n \o "ib")>>),
                                                       LB("H", 2, n \o "h2", <<>>), P("tail", <<>>),
                                                       \* ... and under a heading that itself stands inside a block quote ("QR")
                                                       LB("QH", 1, n \o "qh", <<>>), LB("QR", 0, n \o "qs", <<L(b, "inline", n \o "qb")>>)>>]
      \* a note that ends with a code block (the closing fence is its last line: what that line belongs to depends on
      \* whether the text ends with a line terminator)
      [] v = 20 -> [title |-> "T" \o n, blocks |-> <<P("p", <<L(a, "inline", n \o "pa")>>), LB("H", 2, n \o "h2", <<>>), LB("Code", 0, n \o "lastcode", <<>>)>>]
      [] v = 9 -> [title |-> "T" \o n, blocks |-> <<LB("Ref", 0, n \o "m", <<L(Rel(MISSING, d), "inline", n \o "mm")>>),
                                                      P("x", <<X("https://example.com/" \o n, n \o "xx"), X("HTTPS://EXAMPLE.COM/" \o n, n \o "xy"), X("ftp://host/" \o n \o ".md", n \o "xz")>>),
                                                      P("w", <<L(a, "wiki", ""), L(b, "piped", n \o "pb")>>)>>]

VARIABLES docs, init, steps
vars == <<docs, init, steps>>

Started == init # <<>>

GInit == docs = <<>> /\ init = <<>> /\ steps = <<>>

\* the server starts on a library of the three base notes
Start(v1, v2, v3) ==
    /\ ~Started
    /\ v1 \in InitVariants /\ v2 \in InitVariants /\ v3 \in Init3Variants
    /\ init' = <<[key |-> K1, note |-> Note(K1, v1)], [key |-> K2, note |-> Note(K2, v2)], [key |-> K3, note |-> Note(K3, v3)]>>
    /\ docs' = (K1 :> Note(K1, v1)) @@ (K2 :> Note(K2, v2)) @@ (K3 :> Note(K3, v3))
    /\ steps' = <<>>

\* didChange / didSave of an existing note, or a new file
Update(k, v) ==
    /\ Started /\ Len(steps) < MaxSteps
    /\ v \in StepVariants
    /\ k \in StepKeys
    /\ docs' = (k :> Note(k, v)) @@ docs
    /\ steps' = Append(steps, [key |-> k, note |-> Note(k, v), new |-> k \notin DOMAIN docs])
    /\ UNCHANGED init

GNext == (\E v1, v2, v3 \in 0..20 : Start(v1, v2, v3)) \/ (\E k \in {K1, K2, K3, K4, K5, K6}, v \in 0..20 : Update(k, v))
GSpec == GInit /\ [][GNext]_vars

Emit == Started => PrintT(<<"HIST", ToJson([init |-> init, steps |-> steps])>>)
=============================================================================
