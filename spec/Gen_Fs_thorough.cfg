SPECIFICATION Spec
CONSTANTS MaxEntries = 3  MaxOrdinal = 4
INVARIANT Emit
CHECK_DEADLOCK FALSE
