\* generator: every document of <= 5 nodes, printed for the builder binding (vh builder-replay, Trace_Builder)
SPECIFICATION SpecB
CONSTANTS
  Slip <- NoSlip
  LeafKinds <- BLeaves
  ContKinds <- BConts
  MaxNodes = 5
  MaxDepth = 2
INVARIANT EmitB
CHECK_DEADLOCK FALSE
