------------------------- MODULE Trace_Determinism -------------------------
(***************************************************************************)
(* Judge for C16.  In Lib.tla every answer is an operator of docs, a       *)
(* function from keys to notes: it has no load order, no thread count and  *)
(* no hash seed, so all observations of one library must coincide.  Each   *)
(* line is the canonical dump (one digest per section: exported files,     *)
(* titles, backlink sets, the set of outline paths, search results in *)
(* returned order for four queries) of one process run under one           *)
(* configuration (rayon pool size, load route, load / insert order); the    *)
(* dump also says whether repeating each search in that process, in pools  *)
(* of several sizes, always gave the same list.                             *)
(***************************************************************************)
EXTENDS Integers, Sequences, FiniteSets, TLC, Json, IOUtils

Rec == ndJsonDeserialize(IOEnv.TRACE)
VARIABLE l
Init == l = 1

First(lib) == Rec[CHOOSE i \in 1..Len(Rec) : Rec[i].lib = lib /\ \A j \in 1..(i - 1) : Rec[j].lib # lib]

Reasons(e) ==
    LET f == First(e.lib)
    IN  {<<"differs-between-runs", s, f.config, e.config>> : s \in {t \in DOMAIN e.digests : e.digests[t] # f.digests[t]}}
        \* the same search repeated inside one process, in rayon pools of 1, 2, 3, 5 and 8 threads
        \cup (IF ~e.repeat_stable THEN {<<"search-differs-between-repetitions", e.config>>} ELSE {})
        \* an edit that changes no text (every note sent again by didChange) changes no document-symbol listing
        \cup (IF "resend_changes_symbols" \in DOMAIN e /\ e.resend_changes_symbols THEN {<<"document-symbols-depend-on-edit-history", e.config>>} ELSE {})

Step == /\ l <= Len(Rec) /\ l' = l + 1
        /\ LET e == Rec[l] IN
           IF e.ev = "Observe" /\ Reasons(e) # {}
           THEN PrintT(<<"VERDICT", ToJson([line |-> l, lib |-> e.lib, bad |-> Reasons(e)])>>)
           ELSE TRUE
Spec == Init /\ [][Step]_l
Accepted == IF TLCGet("stats").diameter - 1 = Len(Rec) THEN PrintT(<<"ACCEPTED", Len(Rec)>>)
            ELSE PrintT(<<"UNCONSUMED", TLCGet("stats").diameter, Len(Rec)>>) /\ FALSE
=============================================================================
