\* the design at the pinned commit: EXPECTED TO FAIL (standing demonstration that
\* TLC finds the lost notification and the unanswered request)
SPECIFICATION Spec
CONSTANTS
  Keys <- MCKeys
  Classes <- MCClasses
  NReq = 2
  NNot = 2
  Design = "unwrap"
  Catch = FALSE
INVARIANTS TypeOK NoLostNotification QuiescentStateIsLastText ReadYourWrites
           AtMostOneResponse ExactlyOneResponseWhenQuiescent LoopSurvives
CHECK_DEADLOCK FALSE
