------------------------------- MODULE Router -------------------------------
(***************************************************************************)
(* The iwes message loop and its per-request worker threads                *)
(* (crates/iwes/src/router.rs).                                            *)
(*                                                                         *)
(* Implementation-shaped: one action per critical section of the code.     *)
(*                                                                         *)
(*   loop thread    Router::run / handle_message / on_notification         *)
(*   worker thread  the closure spawned in handle_message running          *)
(*                  on_request with a clone of the Router (an Arc<Server>  *)
(*                  clone) that lives until the closure is dropped         *)
(*                                                                         *)
(* The client is any interleaving of NReq requests and NNot full-text      *)
(* change notifications over the notes Keys.  Notification n carries the   *)
(* text "version n" of its note, so texts are distinguishable; a request   *)
(* echoes the version of the note it reads (formatting does).              *)
(*                                                                         *)
(* Two designs of the notification arm are modelled, selected by Design:   *)
(*   "unwrap"  Arc::get_mut(&mut self.server).unwrap(): with a live worker *)
(*             the unwrap panics, run() catches the panic and the message  *)
(*             is dropped (the code as it was at the pinned commit);       *)
(*   "wait"    the loop waits until it holds the only reference, then      *)
(*             applies the notification (the repaired code).               *)
(* and two designs of the worker's failure handling, selected by Catch:    *)
(*   FALSE     a panic in a handler kills the worker: no response;         *)
(*   TRUE      the panic is caught and answered with an error response.    *)
(***************************************************************************)
EXTENDS Integers, Sequences, FiniteSets, TLC

CONSTANTS
    Keys,        \* note keys
    NReq,        \* number of requests the client may send
    NNot,        \* number of change notifications the client may send
    Design,      \* "unwrap" | "wait"
    Catch,       \* BOOLEAN
    Classes      \* request classes the client may use, subset of ReqClass

ReqClass == {"ok", "panic", "unknown", "exec", "shutdown"}
\* ok       a handler that computes a result from the server state
\* panic    a handler that panics (unknown file, stale action id, dangling inline ...)
\* unknown  a method the dispatcher does not know
\* exec     workspace/executeCommand (sends a request to the client)
\* shutdown the shutdown request

Req == 1..NReq
Not == 1..NNot

VARIABLES
    inbox,       \* FIFO of messages from the client not yet taken by the loop
    nextReq,     \* next request id to send
    nextNot,     \* next notification id to send
    reqKey,      \* request -> note it reads
    reqClass,    \* request -> class
    notKey,      \* notification -> note it replaces
    loop,        \* <<"idle",0>> | <<"notif", n>> (taken, not yet applied) | <<"exited",0>>
    wpc,         \* request -> "unsent"|"queued"|"spawned"|"computed"|"panicking"|"responded"|"exited"
    server,      \* note -> version held by the Server (0 = initial text)
    wSeen,       \* request -> version of its note that the worker read (or -1)
    responses,   \* request -> number of responses written to the client
    errors,      \* request -> number of those that are error responses
    dropped,     \* notifications lost by the loop
    applied,     \* notifications applied by the loop
    sentBefore,  \* request -> version of its note last sent before the request was sent
    lastSent,    \* note -> last version sent by the client (0 = none)
    exitSent     \* the client has sent exit

vars == <<inbox, nextReq, nextNot, reqKey, reqClass, notKey, loop, wpc, server, wSeen,
          responses, errors, dropped, applied, sentBefore, lastSent, exitSent>>

Holding == {"spawned", "computed", "panicking", "responded"}

\* Arc::strong_count(&self.server): the loop's own reference plus one per worker
\* whose closure has not been dropped yet
Arc == 1 + Cardinality({r \in Req : wpc[r] \in Holding})

Init ==
    /\ inbox = <<>>
    /\ nextReq = 1
    /\ nextNot = 1
    /\ reqKey = [r \in Req |-> CHOOSE k \in Keys : TRUE]
    /\ reqClass = [r \in Req |-> "ok"]
    /\ notKey = [n \in Not |-> CHOOSE k \in Keys : TRUE]
    /\ loop = <<"idle", 0>>
    /\ wpc = [r \in Req |-> "unsent"]
    /\ server = [k \in Keys |-> 0]
    /\ wSeen = [r \in Req |-> -1]
    /\ responses = [r \in Req |-> 0]
    /\ errors = [r \in Req |-> 0]
    /\ dropped = {}
    /\ applied = {}
    /\ sentBefore = [r \in Req |-> 0]
    /\ lastSent = [k \in Keys |-> 0]
    /\ exitSent = FALSE

(***************************************************************************)
(* Client                                                                  *)
(***************************************************************************)
ClientSendReq(k, c) ==
    /\ ~exitSent
    /\ nextReq <= NReq
    /\ c \in Classes
    /\ inbox' = Append(inbox, <<"req", nextReq>>)
    /\ reqKey' = [reqKey EXCEPT ![nextReq] = k]
    /\ reqClass' = [reqClass EXCEPT ![nextReq] = c]
    /\ wpc' = [wpc EXCEPT ![nextReq] = "queued"]
    /\ sentBefore' = [sentBefore EXCEPT ![nextReq] = lastSent[k]]
    /\ nextReq' = nextReq + 1
    /\ UNCHANGED <<nextNot, notKey, loop, server, wSeen, responses, errors, dropped,
                   applied, lastSent, exitSent>>

\* didChange / didSave with the full text "version nextNot" of note k
ClientSendNot(k) ==
    /\ ~exitSent
    /\ nextNot <= NNot
    /\ inbox' = Append(inbox, <<"not", nextNot>>)
    /\ notKey' = [notKey EXCEPT ![nextNot] = k]
    /\ lastSent' = [lastSent EXCEPT ![k] = nextNot]
    /\ nextNot' = nextNot + 1
    /\ UNCHANGED <<nextReq, reqKey, reqClass, loop, wpc, server, wSeen, responses, errors,
                   dropped, applied, sentBefore, exitSent>>

ClientSendExit ==
    /\ ~exitSent
    /\ nextReq > NReq /\ nextNot > NNot
    /\ inbox' = Append(inbox, <<"exit", 0>>)
    /\ exitSent' = TRUE
    /\ UNCHANGED <<nextReq, nextNot, reqKey, reqClass, notKey, loop, wpc, server, wSeen,
                   responses, errors, dropped, applied, sentBefore, lastSent>>

(***************************************************************************)
(* Loop thread                                                             *)
(***************************************************************************)
\* handle_message, Message::Request arm: clone the router, spawn the worker
LoopTakeReq(r) ==
    /\ loop = <<"idle", 0>>
    /\ inbox # <<>> /\ Head(inbox) = <<"req", r>>
    /\ inbox' = Tail(inbox)
    /\ wpc' = [wpc EXCEPT ![r] = "spawned"]
    /\ UNCHANGED <<nextReq, nextNot, reqKey, reqClass, notKey, loop, server, wSeen, responses,
                   errors, dropped, applied, sentBefore, lastSent, exitSent>>

\* handle_message, Message::Notification arm up to the point where exclusive
\* access to the Server is needed
LoopTakeNotif(n) ==
    /\ loop = <<"idle", 0>>
    /\ inbox # <<>> /\ Head(inbox) = <<"not", n>>
    /\ inbox' = Tail(inbox)
    /\ loop' = <<"notif", n>>
    /\ UNCHANGED <<nextReq, nextNot, reqKey, reqClass, notKey, wpc, server, wSeen, responses,
                   errors, dropped, applied, sentBefore, lastSent, exitSent>>

\* exclusive access obtained: handle_did_change_text_document
LoopApply(n) ==
    /\ loop = <<"notif", n>>
    /\ Arc = 1
    /\ server' = [server EXCEPT ![notKey[n]] = n]
    /\ applied' = applied \cup {n}
    /\ loop' = <<"idle", 0>>
    /\ UNCHANGED <<inbox, nextReq, nextNot, reqKey, reqClass, notKey, wpc, wSeen, responses,
                   errors, dropped, sentBefore, lastSent, exitSent>>

\* design "unwrap": Arc::get_mut returns None, unwrap panics, run() catches it
LoopDrop(n) ==
    /\ Design = "unwrap"
    /\ loop = <<"notif", n>>
    /\ Arc > 1
    /\ dropped' = dropped \cup {n}
    /\ loop' = <<"idle", 0>>
    /\ UNCHANGED <<inbox, nextReq, nextNot, reqKey, reqClass, notKey, wpc, server, wSeen,
                   responses, errors, applied, sentBefore, lastSent, exitSent>>

\* (design "wait": with Arc > 1 the loop simply stays in <<"notif", n>>)

LoopTakeExit ==
    /\ loop = <<"idle", 0>>
    /\ inbox # <<>> /\ Head(inbox) = <<"exit", 0>>
    /\ inbox' = Tail(inbox)
    /\ loop' = <<"exited", 0>>
    /\ UNCHANGED <<nextReq, nextNot, reqKey, reqClass, notKey, wpc, server, wSeen, responses,
                   errors, dropped, applied, sentBefore, lastSent, exitSent>>

(***************************************************************************)
(* Worker threads                                                          *)
(***************************************************************************)
\* on_request up to "schedule update": read the Server through the shared Arc
WCompute(r) ==
    /\ wpc[r] = "spawned"
    /\ reqClass[r] \in {"ok", "shutdown", "exec"}
    /\ wSeen' = [wSeen EXCEPT ![r] = server[reqKey[r]]]
    /\ wpc' = [wpc EXCEPT ![r] = "computed"]
    /\ UNCHANGED <<inbox, nextReq, nextNot, reqKey, reqClass, notKey, loop, server, responses,
                   errors, dropped, applied, sentBefore, lastSent, exitSent>>

\* a handler (or the dispatcher's default arm) panics
WPanic(r) ==
    /\ wpc[r] = "spawned"
    /\ reqClass[r] \in {"panic", "unknown"}
    /\ wpc' = [wpc EXCEPT ![r] = "panicking"]
    /\ UNCHANGED <<inbox, nextReq, nextNot, reqKey, reqClass, notKey, loop, server, wSeen,
                   responses, errors, dropped, applied, sentBefore, lastSent, exitSent>>

\* self.respond(...)
WRespond(r) ==
    /\ wpc[r] = "computed"
    /\ responses' = [responses EXCEPT ![r] = @ + 1]
    /\ wpc' = [wpc EXCEPT ![r] = "responded"]
    /\ UNCHANGED <<inbox, nextReq, nextNot, reqKey, reqClass, notKey, loop, server, wSeen,
                   errors, dropped, applied, sentBefore, lastSent, exitSent>>

\* Catch = TRUE: the panic is caught in on_request and answered with an error
WRespondError(r) ==
    /\ Catch
    /\ wpc[r] = "panicking"
    /\ responses' = [responses EXCEPT ![r] = @ + 1]
    /\ errors' = [errors EXCEPT ![r] = @ + 1]
    /\ wpc' = [wpc EXCEPT ![r] = "responded"]
    /\ UNCHANGED <<inbox, nextReq, nextNot, reqKey, reqClass, notKey, loop, server, wSeen,
                   dropped, applied, sentBefore, lastSent, exitSent>>

\* the closure returns (or unwinds) and its Router clone is dropped
WExit(r) ==
    /\ \/ wpc[r] = "responded"
       \/ wpc[r] = "panicking" /\ ~Catch
    /\ wpc' = [wpc EXCEPT ![r] = "exited"]
    /\ UNCHANGED <<inbox, nextReq, nextNot, reqKey, reqClass, notKey, loop, server, wSeen,
                   responses, errors, dropped, applied, sentBefore, lastSent, exitSent>>

ClientStep == \/ \E k \in Keys, c \in ReqClass : ClientSendReq(k, c)
              \/ \E k \in Keys : ClientSendNot(k)
              \/ ClientSendExit
LoopStep   == \/ \E r \in Req : LoopTakeReq(r)
              \/ \E n \in Not : LoopTakeNotif(n) \/ LoopApply(n) \/ LoopDrop(n)
              \/ LoopTakeExit
WorkerStep == \E r \in Req : WCompute(r) \/ WPanic(r) \/ WRespond(r) \/ WRespondError(r) \/ WExit(r)

Next == ClientStep \/ LoopStep \/ WorkerStep

Spec == Init /\ [][Next]_vars

\* threads are scheduled: every continuously enabled loop / worker step is taken
FairSpec == Spec /\ WF_vars(LoopStep) /\ \A r \in Req : WF_vars(WCompute(r) \/ WPanic(r) \/ WRespond(r) \/ WRespondError(r) \/ WExit(r))
                 /\ WF_vars(ClientStep)

(***************************************************************************)
(* Properties                                                              *)
(***************************************************************************)
TypeOK ==
    /\ \A r \in Req : wpc[r] \in {"unsent", "queued", "spawned", "computed", "panicking", "responded", "exited"}
    /\ loop \in {<<"idle", 0>>, <<"exited", 0>>} \cup {<<"notif", n>> : n \in Not}
    /\ \A k \in Keys : server[k] \in 0..NNot

Sent(r) == wpc[r] # "unsent"

\* nothing in flight: every message sent has been taken and every worker is gone
Quiescent ==
    /\ inbox = <<>>
    /\ loop[1] \in {"idle", "exited"}
    /\ \A r \in Req : wpc[r] \in {"unsent", "exited"}

\* C11 ---------------------------------------------------------------------
NoLostNotification == dropped = {}

QuiescentStateIsLastText == Quiescent => \A k \in Keys : server[k] = lastSent[k]

\* a request issued after a notification is answered from a state that includes it
ReadYourWrites == \A r \in Req : wSeen[r] # -1 => wSeen[r] >= sentBefore[r]

\* C12 ---------------------------------------------------------------------
AtMostOneResponse == \A r \in Req : responses[r] <= 1

ExactlyOneResponseWhenQuiescent ==
    Quiescent => \A r \in Req : Sent(r) => responses[r] = 1

\* the failing request never takes the server down: the loop only leaves "idle"
\* for a notification or for exit
LoopSurvives == loop = <<"exited", 0>> => exitSent

\* liveness (checked under FairSpec): everything sent is eventually dealt with
EventuallyQuiescent == <>[](Quiescent /\ exitSent /\ loop = <<"exited", 0>>)
EveryRequestAnswered == \A r \in Req : [](Sent(r) => <>(responses[r] = 1))
EveryNotificationApplied == \A n \in Not : [](n < nextNot => <>(n \in applied))

=============================================================================
