------------------------------- MODULE Gen_Fs -------------------------------
(***************************************************************************)
(* Generator for C19 (spec -> implementation): directory trees x fault     *)
(* plans.  A tree is a set of entries drawn from a catalogue that crosses  *)
(* directory depth, awkward names, note / non-note files and content       *)
(* classes; a fault plan names the system call of the write protocol that  *)
(* fails or at which the process is killed, by syscall name and ordinal    *)
(* (which file it hits follows from the hash-map order of that run), or a  *)
(* file-size limit that makes a write stop part-way.                       *)
(***************************************************************************)
EXTENDS Naturals, FiniteSets, Sequences, TLC, Json

CONSTANTS MaxEntries, MaxOrdinal

E(d, n, k, c) == [dir |-> d, name |-> n, kind |-> k, content |-> c]

\* kind: "link" = <name>.md as a symbolic link, "note" = <name>.md, "txt" = <name>.txt, "noext" = <name>, "mdmd" = <name>.md.md, "upper" = <name>.MD
\* content: "messy" (formatting changes it), "clean" (already formatted), "empty", "big"
Catalogue == {
    E("", "a", "note", "messy"),
    E("", "b", "note", "clean"),
    E("d", "a", "note", "messy"),             \* same file name in another directory
    E("d/e", "c", "note", "big"),
    E("", "sp ace", "note", "messy"),
    E("dir sp", "n", "note", "messy"),
    E("", "üml", "note", "messy"),
    E("", "x.y", "note", "messy"),
    E("", "empty", "note", "empty"),
    E("", "c", "mdmd", "messy"),
    E("", "notes", "txt", "messy"),
    E("d", "README", "noext", "messy"),
    E("d", "a.md", "txt", "messy"),           \* a.md.txt: contains ".md" but is no note
    E("", "UPPER", "upper", "messy"),         \* UPPER.MD: the extension in capitals is not the extension of a note
    E("", "lnk", "link", "big")               \* lnk.md is a symbolic link to a file outside the library
}

Syscalls == {"openat", "write", "close", "rename", "unlink", "chmod"}
Kinds == {"ENOSPC", "EDQUOT", "EIO", "EACCES", "KILL"}

Faults ==
    {[type |-> "none", sys |-> "", ord |-> 0, kind |-> ""]}
    \cup {[type |-> "inject", sys |-> s, ord |-> o, kind |-> k] : s \in Syscalls, o \in 1..MaxOrdinal, k \in Kinds}
    \* a file-size limit: the signal SIGXFSZ ends the process (kind ""), or - with the signal ignored, as under many
    \* supervisors - every write past the limit returns EFBIG, again and again (a failure that does not go away on retry)
    \cup {[type |-> "fsize", sys |-> "", ord |-> o, kind |-> k] : o \in {0, 1, 7, 100}, k \in {"", "EFBIG"}}

IsNote(e) == e.kind \in {"note", "mdmd", "link"}

VARIABLES tree, fault, done
vars == <<tree, fault, done>>

Init == tree = {} /\ fault = [type |-> "none", sys |-> "", ord |-> 0, kind |-> ""] /\ done = FALSE

AddEntry(e) == /\ ~done /\ e \notin tree /\ Cardinality(tree) < MaxEntries
               /\ tree' = tree \cup {e} /\ UNCHANGED <<fault, done>>
Choose(f) == /\ ~done /\ \E e \in tree : IsNote(e)
             /\ fault' = f /\ done' = TRUE /\ UNCHANGED tree

Next == (\E e \in Catalogue : AddEntry(e)) \/ (\E f \in Faults : Choose(f))
Spec == Init /\ [][Next]_vars

Emit == done => PrintT(<<"CASE", ToJson([tree |-> tree, fault |-> fault])>>)
=============================================================================
