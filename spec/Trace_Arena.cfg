SPECIFICATION TSpec
CONSTANTS
  Keys = {1, 2, 3}
  Catalogue = {}
  MaxOps = 1000000
  DeleteStopsAt = {}
  IndexStopsAt = {}
  ReuseIds = FALSE
POSTCONDITION Accepted
CHECK_DEADLOCK FALSE
