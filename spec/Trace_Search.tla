---------------------------- MODULE Trace_Search ----------------------------
(***************************************************************************)
(* Judge for the search part of C18: "search returns at most 100 entries   *)
(* in its documented order, and an empty query lists the most-referenced   *)
(* notes first".  Each line gives, for one query, the full listing the     *)
(* result was chosen from (fuzzy score as computed by the same matcher,    *)
(* text length, reference rank) and the positions of the returned entries  *)
(* in it.  The documented order is a preorder:                             *)
(*   empty query     rank descending, then text length ascending           *)
(*   other queries   score descending, then length ascending, then rank    *)
(*                   descending                                            *)
(* The result must be sorted by it, have min(100, all) entries, each a     *)
(* distinct entry of the listing, and no omitted entry may strictly        *)
(* precede a returned one.  Ties are left free.                            *)
(***************************************************************************)
EXTENDS Integers, Sequences, FiniteSets, TLC, Json, IOUtils

Rec == ndJsonDeserialize(IOEnv.TRACE)
VARIABLE l
Init == l = 1

Before(e, a, b) ==
    IF e.empty THEN a.rank > b.rank \/ (a.rank = b.rank /\ a.len < b.len)
    ELSE a.score > b.score \/ (a.score = b.score /\ a.len < b.len) \/ (a.score = b.score /\ a.len = b.len /\ a.rank > b.rank)

Min(a, b) == IF a < b THEN a ELSE b

Reasons(e) ==
    LET ret == e.returned
        n == Len(ret)
        all == e.all
        retSet == {ret[i] : i \in 1..n}
        omitted == (1..Len(all)) \ retSet
    IN  (IF n # Min(100, Len(all)) THEN {<<"count", n, Len(all)>>} ELSE {})
        \* symbol names are the heading texts of the chain (workspace/symbol against the chains of the returned entries)
        \cup (IF "names_differ" \in DOMAIN e /\ e.names_differ # <<>> THEN {<<"symbol-names", e.names_differ>>} ELSE {})
        \* the rank the order is built on is the number of references to the note (counted on the texts)
        \cup {<<"rank-is-not-the-reference-count", i, all[i].rank, all[i].refs>> : i \in {j \in 1..Len(all) : "refs" \in DOMAIN all[j] /\ all[j].rank # all[j].refs}}
        \cup (IF \E i \in 1..n : ret[i] < 1 THEN {<<"returned-entry-not-in-listing">>} ELSE {})
        \cup (IF Cardinality(retSet) # n THEN {<<"entry-returned-twice">>} ELSE {})
        \cup (IF \A i \in 1..n : ret[i] >= 1
              THEN {<<"not-in-documented-order", i>> : i \in {j \in 1..(n - 1) : Before(e, all[ret[j + 1]], all[ret[j]])}}
                   \cup (IF \E o \in omitted, i \in 1..n : Before(e, all[o], all[ret[i]]) THEN {<<"better-entry-omitted">>} ELSE {})
              ELSE {})

Step == /\ l <= Len(Rec) /\ l' = l + 1
        /\ LET e == Rec[l] IN
           IF e.ev = "Search" /\ Reasons(e) # {}
           THEN PrintT(<<"VERDICT", ToJson([line |-> l, query |-> e.query, bad |-> Reasons(e)])>>)
           ELSE TRUE
Spec == Init /\ [][Step]_l
Accepted == IF TLCGet("stats").diameter - 1 = Len(Rec) THEN PrintT(<<"ACCEPTED", Len(Rec)>>)
            ELSE PrintT(<<"UNCONSUMED", TLCGet("stats").diameter, Len(Rec)>>) /\ FALSE
=============================================================================
