SPECIFICATION Spec
CONSTANTS
  Keys = {1, 2}
  Catalogue <- CatFull
  MaxOps = 4
  DeleteStopsAt = {}
  IndexStopsAt = {}
  ReuseIds = TRUE
INVARIANTS ForestInv PatchInv WalkIsLastVersion IndexIsFresh
PROPERTIES OthersUntouched IdsMonotone
CHECK_DEADLOCK FALSE
