---------------------------- MODULE MC_Gen_Keys ----------------------------
EXTENDS Gen_Keys
S2 == {"a", "b"}
S3 == {"a", "aa", "b.c"}    \* "aa" starts like "a": segment-wise vs character-wise prefixes differ; "b.c": a dot in a name is not an extension
=============================================================================
