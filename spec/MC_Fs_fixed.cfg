\* repaired write protocol; keys of *.md.md files as they should be
SPECIFICATION Spec
CONSTANTS
  Notes <- MCNotes
  MdMd <- MCMdMd
  Others <- MCOthers
  MaxChunks = 3
  Protocol = "tmprename"
  KeyRule = "one"
INVARIANTS TypeOK Intact InPlace NothingElseTouched FailedRunIsPartial
CHECK_DEADLOCK FALSE
