----------------------------- MODULE Gen_Squash -----------------------------
(***************************************************************************)
(* C17 universe: every block-reference graph on three notes where each     *)
(* note holds at most two references (to itself, to the others, to a       *)
(* missing note) between its own paragraphs -- trees, DAGs with sharing,   *)
(* cycles, self-loops, dangling targets -- squashed from note 1 at every   *)
(* depth 0..MaxDepth; and chains / single self-loops at the depths in      *)
(* DeepDepths (up to 255), whose expansion stays small.                    *)
(***************************************************************************)
EXTENDS Naturals, Sequences, FiniteSets, TLC, Json

CONSTANTS MaxDepth, DeepDepths

N1 == <<"1">>
N2 == <<"2">>
N3 == <<"d", "3">>
MISSING == <<"nosuch">>
Targets == {N1, N2, N3, MISSING}

U(up, segs) == [up |-> up, segs |-> segs, md |-> FALSE, dot |-> FALSE]
Dir(k) == SubSeq(k, 1, Len(k) - 1)
RECURSIVE Common(_, _)
Common(a, b) == IF a = <<>> \/ b = <<>> \/ Head(a) # Head(b) THEN 0 ELSE 1 + Common(Tail(a), Tail(b))
Rel(k, d) == LET c == Common(Dir(k), d) IN U(Len(d) - c, SubSeq(k, c + 1, Len(k)))

LB(k, text, links) == [k |-> k, lvl |-> 0, text |-> text, links |-> links]
Ref(src, t, name) == LB("Ref", name, <<[url |-> Rel(t, Dir(src)), kind |-> "inline", text |-> name, ext |-> FALSE]>>)
Name(k) == IF k = N1 THEN "a" ELSE IF k = N2 THEN "b" ELSE "c"

\* a note with title, a paragraph, then the references each followed by a paragraph
NoteWith(k, refs) ==
    [title |-> "T" \o Name(k),
     blocks |-> <<LB("P", Name(k) \o "p0", <<>>)>>
                \o (IF Len(refs) >= 1 THEN <<Ref(k, refs[1], Name(k) \o "r1"), LB("P", Name(k) \o "p1", <<>>)>> ELSE <<>>)
                \o (IF Len(refs) >= 2 THEN <<Ref(k, refs[2], Name(k) \o "r2")>> ELSE <<>>)]

\* a stub: a note without heading whose whole body is one block reference
Stub(k, t) == [title |-> "", blocks |-> <<Ref(k, t, Name(k) \o "s")>>]

RefLists == {<<>>} \cup {<<t>> : t \in Targets} \cup {<<t1, t2>> : t1 \in Targets, t2 \in Targets}

VARIABLES docs, depth, done
vars == <<docs, depth, done>>
Init == docs = <<>> /\ depth = 0 /\ done = FALSE

Lib(r1, r2, r3) == <<[key |-> N1, note |-> NoteWith(N1, r1)], [key |-> N2, note |-> NoteWith(N2, r2)], [key |-> N3, note |-> NoteWith(N3, r3)]>>

\* number of references reachable by following every chain for d steps stays small
Next == /\ ~done
        /\ \/ \E r1, r2, r3 \in RefLists, d \in 0..MaxDepth :
                docs' = Lib(r1, r2, r3) /\ depth' = d /\ done' = TRUE
           \* notes 2 and 3 are stubs (pointing anywhere, also at themselves and at each other): a hop through
           \* a stub costs depth like any other
           \/ \E r1 \in RefLists, s2, s3 \in Targets, d \in 0..MaxDepth :
                /\ docs' = <<[key |-> N1, note |-> NoteWith(N1, r1)], [key |-> N2, note |-> Stub(N2, s2)], [key |-> N3, note |-> Stub(N3, s3)]>>
                /\ depth' = d /\ done' = TRUE
           \/ \E d \in DeepDepths, shape \in {"self", "chain", "cycle2", "cycle3"} :
                /\ docs' = CASE shape = "self" -> Lib(<<N1>>, <<>>, <<>>)
                             [] shape = "chain" -> Lib(<<N2>>, <<N3>>, <<>>)
                             [] shape = "cycle2" -> Lib(<<N2>>, <<N1>>, <<>>)
                             [] shape = "cycle3" -> Lib(<<N2>>, <<N3>>, <<N1>>)
                /\ depth' = d /\ done' = TRUE
Spec == Init /\ [][Next]_vars

Emit == done => PrintT(<<"CASE", ToJson([docs |-> docs, depth |-> depth, root |-> N1])>>)
=============================================================================
