\* <= 5 nodes over the structural alphabet, depth <= 3
SPECIFICATION Spec
CONSTANTS
  LeafKinds <- StructLeaves
  ContKinds <- AllConts
  MaxNodes = 5
  MaxDepth = 3
INVARIANT Emit
CHECK_DEADLOCK FALSE
