\* longer histories, sampled with -simulate
SPECIFICATION GSpec
CONSTANTS
  InitVariants <- AllV
  Init3Variants <- AllV
  StepVariants <- AllV
  StepKeys <- AllKeys
  MaxSteps = 8
INVARIANT Emit
CHECK_DEADLOCK FALSE
