---------------------------- MODULE Trace_Builder ----------------------------
(***************************************************************************)
(* Binding of Builder.tla to the code.  Each line of the trace is one      *)
(* document of MC_Builder's universe together with the arena that the real *)
(* Graph::update_key built from its Markdown (vh builder-replay).  The     *)
(* judge builds the same document with the transcribed builder and         *)
(* compares the two arenas node id by node id (kind, prev, next, child),   *)
(* and evaluates WellLinked and the documented walk on the OBSERVED arena:  *)
(*   "model"   the code no longer builds what Builder.tla builds            *)
(*   "linked"  a node of the observed arena has no place, or two            *)
(*   "walk"    the observed arena's walk is not the document                *)
(***************************************************************************)
EXTENDS Builder, Json, IOUtils, TLC

Rec == ndJsonDeserialize(IOEnv.TRACE)
VARIABLE l
KindName(k) == k
ObsArena(e) == [i \in 1..Len(e.nodes) |-> [kind |-> e.nodes[i].kind, prev |-> e.nodes[i].prev, next |-> e.nodes[i].next,
                                           child |-> e.nodes[i].child, txt |-> FALSE]]
Strip(ns) == [i \in 1..Len(ns) |-> [kind |-> ns[i].kind, prev |-> ns[i].prev, next |-> ns[i].next, child |-> ns[i].child]]

Diff(m, o) == IF Len(m) # Len(o) THEN {<<"length", Len(m), Len(o)>>}
              ELSE {<<i - 1, m[i], o[i]>> : i \in {j \in 1..Len(m) : m[j] # o[j]}}

\* the walk without the text flag (the observed arena does not say whether a section has a text)
NoTxt(w) == [i \in 1..Len(w) |-> <<w[i][1], w[i][3], w[i][4]>>]
NoTxtSD(w) == [i \in 1..Len(w) |-> <<w[i][1], w[i][3]>>]

Reasons(e) ==
    LET m == Build(e.blocks)
        o == ObsArena(e)
        panicked == Len(o) = 1 /\ o[1].kind = "panic"
    IN  IF panicked THEN {<<"panic">>}
        ELSE {<<"model", d>> : d \in Diff(Strip(m), Strip(o))}
             \cup (IF WellLinked(o) THEN {} ELSE {<<"linked">>})
             \cup (IF ~WellLinked(o) THEN {}
                   ELSE LET w == WalkSeq(o, At(o, 0).child, 0, 0) d == DocSeq(e.blocks, 0)
                        IN  IF NoTxtSD(w) # NoTxtSD(d) THEN {<<"walk">>}
                            ELSE IF AllWN(e.blocks, 1) /\ NoTxt(w) # NoTxt(d) THEN {<<"walk", "section-depth">>} ELSE {})

TInit == l = 1
TNext == /\ l <= Len(Rec)
         /\ LET e == Rec[l] r == Reasons(e)
            IN  IF r = {} THEN TRUE ELSE PrintT(<<"VERDICT", ToJson([case |-> e.case, variant |-> e.variant, bad |-> r])>>)
         /\ l' = l + 1
TSpec == TInit /\ [][TNext]_l
Accepted == IF TLCGet("stats").diameter - 1 = Len(Rec) THEN PrintT(<<"ACCEPTED", Len(Rec)>>)
            ELSE PrintT(<<"REJECTED at", TLCGet("stats").diameter>>)
=============================================================================
