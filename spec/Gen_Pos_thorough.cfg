SPECIFICATION Spec
CONSTANTS MaxLead = 3  MaxPrefix = 3
INVARIANT Emit
CHECK_DEADLOCK FALSE
