SPECIFICATION MSpec
CONSTANTS
  MaxLen = 6
  MaxLevel = 6
INVARIANT Holds
CHECK_DEADLOCK FALSE
