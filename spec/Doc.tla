-------------------------------- MODULE Doc --------------------------------
(***************************************************************************)
(* The abstract document model and the ideal-level relations of C01, C02,  *)
(* C07 -- relations between an input document and ANY output document,     *)
(* worded as the properties are worded (not a prediction of one output).   *)
(*                                                                         *)
(* Doc   == [meta : STRING, blocks : Seq(Block)]      (meta "" = none)      *)
(* Block == [k, l, t, c, items, rows, x]                                   *)
(*   k = "H"    heading, level l, inline text t                            *)
(*       "P"    paragraph / plain text, inline text t                      *)
(*       "Code" code block, t = <<[k |-> "W", s |-> body]>>, language x    *)
(*       "Rule" thematic break                                             *)
(*       "Html" raw HTML block (documented drop)                           *)
(*       "Q"    block quote, children c                                    *)
(*       "BL" / "OL"  bullet / ordered list, items = Seq(Seq(Block))       *)
(*       "Tbl"  table, rows = Seq(Seq(Seq(Tok))) (first row = header)      *)
(* Tok   == [k, s, c, x]                                                   *)
(*   k = "W" word s | "SP" space | "SB" soft break | "HB" hard break |     *)
(*       "Code" code span s | "Em" / "St" emphasis / strong, children c |  *)
(*       "Link" destination s, text c, x = "inline" | "auto" | "wiki" |    *)
(*              "piped" | "ref"  | "Img" destination s, alt text c |       *)
(*       "Html" inline html s                                              *)
(***************************************************************************)
EXTENDS Naturals, Sequences, FiniteSets, TLC, SequencesExt

RECURSIVE Atoms(_), AtomsOf(_), FlatBlocks(_, _, _), FlatItems(_, _, _, _, _, _), Flatten(_), FlatItem(_, _), FlatBlock(_, _, _, _)

Flatten(ss) == IF ss = <<>> THEN <<>> ELSE Head(ss) \o Flatten(Tail(ss))

IsInternal(url) == TRUE  \* refined by the harness: x = "ext" marks external links

(***************************************************************************)
(* Atoms of an inline sequence: what the note "says".  Words in order,     *)
(* code spans, link and image destinations, inline html.  Emphasis markers *)
(* and the kind of whitespace between words are presentation.  The text of *)
(* an ordinary internal link may be refreshed to the target's title, so it *)
(* is not content; the text of every other link is.                        *)
(***************************************************************************)
AtomsOf(tok) ==
    CASE tok.k = "W" -> <<<<"w", tok.s>>>>
      [] tok.k = "Code" -> <<<<"code", tok.s>>>>
      [] tok.k = "Html" -> <<<<"html", tok.s>>>>
      [] tok.k \in {"Em", "St"} -> Atoms(tok.c)
      [] tok.k = "Link" ->
            IF tok.x = "inline" THEN <<<<"link", tok.s>>>>                 \* refreshable text
            ELSE IF tok.x = "auto" THEN <<<<"link", tok.s>>>>              \* text is the destination itself
            ELSE IF tok.x = "wiki" THEN <<<<"wikilink", tok.s>>>>          \* text is the destination itself; a wiki link stays one
            ELSE IF tok.x = "piped" THEN <<<<"wikilink", tok.s>>>> \o Atoms(tok.c)
            ELSE <<<<"link", tok.s>>>> \o Atoms(tok.c)                     \* external: text kept
      [] tok.k = "Img" -> <<<<"img", tok.s>>>> \o Atoms(tok.c)
      [] OTHER -> <<>>

Atoms(toks) == IF toks = <<>> THEN <<>> ELSE AtomsOf(Head(toks)) \o Atoms(Tail(toks))

(***************************************************************************)
(* Flat(doc): one entry per leaf block, in document order:                 *)
(*   [path, cls, lvl, atoms]                                               *)
(* path = the chain of enclosing containers: <<"Q", c>>, <<"BL", c, i>>,   *)
(* <<"OL", c, i>> (c = which container among its siblings, i = item index).  The rules stated in C07's quantifier are *)
(* applied here, to input and output alike: a heading that is the first    *)
(* block of a list item counts as that item's text (class "P").            *)
(***************************************************************************)
Entry(path, cls, lvl, atoms) == [path |-> path, cls |-> cls, lvl |-> lvl, atoms |-> atoms]

TableAtoms(rows) == Flatten([r \in 1..Len(rows) |-> Flatten([c \in 1..Len(rows[r]) |-> <<<<"cell", r, c>>>> \o Atoms(rows[r][c])])])

\* c = ordinal of this container among its content-carrying sibling containers, so
\* that two quotes (or lists) next to each other are different containers
FlatBlock(path, b, firstInItem, c) ==
    CASE b.k = "H" -> <<Entry(path, IF firstInItem THEN "P" ELSE "H", IF firstInItem THEN 0 ELSE b.l, Atoms(b.t))>>
      [] b.k = "P" -> <<Entry(path, "P", 0, Atoms(b.t))>>
      [] b.k = "Code" -> <<Entry(path, "Code", 0, Atoms(b.t))>>
      [] b.k = "Rule" -> <<Entry(path, "Rule", 0, <<>>)>>
      [] b.k = "Html" -> <<>>                                   \* documented drop
      [] b.k = "Tbl" -> <<Entry(path, "Tbl", 0, TableAtoms(b.rows))>>
      [] b.k = "Q" -> FlatBlocks(Append(path, <<"Q", c>>), b.c, 1)
      [] b.k \in {"BL", "OL"} -> FlatItems(path, b.k, b.items, 1, 1, c)
      [] OTHER -> <<>>

IsContainer(b) == b.k \in {"Q", "BL", "OL"}

FlatBlocks(path, blocks, c) ==
    IF blocks = <<>> THEN <<>>
    ELSE LET here == FlatBlock(path, Head(blocks), FALSE, c)
         IN  here \o FlatBlocks(path, Tail(blocks), IF IsContainer(Head(blocks)) /\ here # <<>> THEN c + 1 ELSE c)

\* (a dropped HTML block at the head of an item is not "the first block"; neither is a quote or list that holds
\* nothing but dropped blocks: it is not written at all, so what follows it is what the item starts with)
FlatItem(path, blocks) ==
    IF blocks = <<>> THEN <<>>
    ELSE IF Head(blocks).k = "Html" THEN FlatItem(path, Tail(blocks))
    ELSE IF IsContainer(Head(blocks)) /\ FlatBlock(path, Head(blocks), TRUE, 1) = <<>> THEN FlatItem(path, Tail(blocks))
    ELSE LET here == FlatBlock(path, Head(blocks), TRUE, 1)
         IN  here \o FlatBlocks(path, Tail(blocks), IF IsContainer(Head(blocks)) /\ here # <<>> THEN 2 ELSE 1)

\* "empty items carry nothing": an item without content (empty, or holding only a
\* dropped HTML block) does not count; j numbers the items that do
FlatItems(path, kind, items, i, j, c) ==
    IF i > Len(items) THEN <<>>
    ELSE LET here == FlatItem(Append(path, <<kind, c, j>>), items[i])
         IN  IF here = <<>> THEN FlatItems(path, kind, items, i + 1, j, c)
             ELSE here \o FlatItems(path, kind, items, i + 1, j + 1, c)

Flat(doc) == FlatBlocks(<<>>, doc.blocks, 1)

Strip(e) == [path |-> e.path, cls |-> e.cls, atoms |-> e.atoms]

(***************************************************************************)
(* The relations below take the flattened documents (fi = Flat(in),        *)
(* fo = Flat(out)) so that TLC flattens each document once.                *)
(*                                                                         *)
(* C01  "keeps everything the note says: the same words in the same order  *)
(* inside the same kind of block, the same code-block bodies, link and     *)
(* image destinations, list items, table cells and front-matter ...        *)
(* Nothing is duplicated, merged into a neighbour or silently deleted."    *)
(***************************************************************************)
ContentF(f) == [i \in 1..Len(f) |-> Strip(f[i])]

AcceptC01F(fi, fo) == ContentF(fo) = ContentF(fi)

\* first difference, for the verdict line
FirstDiff(a, b) ==
    LET n == IF Len(a) < Len(b) THEN Len(a) ELSE Len(b)
        bad == {i \in 1..n : a[i] # b[i]}
    IN  IF bad # {} THEN LET i == CHOOSE j \in bad : \A m \in bad : j <= m IN <<i, a[i], b[i]>>
        ELSE IF Len(a) > n THEN <<n + 1, a[n + 1], "missing">>
        ELSE IF Len(b) > n THEN <<n + 1, "missing", b[n + 1]>>
        ELSE <<0, "", "">>

(***************************************************************************)
(* C07  "headings stay in order with their text, every block stays under   *)
(* the same heading and inside the same list item or quote at the same     *)
(* nesting depth, ordered lists stay ordered and bullet lists stay         *)
(* bulleted.  An outline whose heading levels are already well-nested      *)
(* (start at 1, never skip a level) is reproduced with identical levels;   *)
(* any other outline is mapped to a well-nested one."  Levels restart      *)
(* inside quotes and items.                                                *)
(***************************************************************************)
ShapeF(f) == [i \in 1..Len(f) |-> [path |-> f[i].path, cls |-> f[i].cls,
                                   atoms |-> IF f[i].cls = "H" THEN f[i].atoms ELSE <<>>]]

ContainersF(f) == {f[i].path : i \in 1..Len(f)}

\* heading levels of one container, in order
LevelsInF(f, path) == SelectSeq([i \in 1..Len(f) |-> IF f[i].path = path /\ f[i].cls = "H" THEN f[i].lvl ELSE 0],
                               LAMBDA x : x # 0)

WellNestedSeq(ls) == /\ (ls # <<>> => ls[1] = 1)
                     /\ \A i \in 2..Len(ls) : ls[i] <= ls[i - 1] + 1

WellNestedF(f) == \A p \in ContainersF(f) : WellNestedSeq(LevelsInF(f, p))

LevelsF(f) == [p \in ContainersF(f) |-> LevelsInF(f, p)]

AcceptC07F(fi, fo) ==
    /\ ShapeF(fo) = ShapeF(fi)
    /\ WellNestedF(fo)
    /\ (WellNestedF(fi) => LevelsF(fo) = LevelsF(fi))

\* document-level forms
AcceptC01(in, out) == AcceptC01F(Flat(in), Flat(out)) /\ out.meta = in.meta
AcceptC07(in, out) == AcceptC07F(Flat(in), Flat(out))
WellNested(doc) == WellNestedF(Flat(doc))
=============================================================================
