SPECIFICATION TSpec
CONSTANTS
  Slip = {}
POSTCONDITION Accepted
CHECK_DEADLOCK FALSE
