SPECIFICATION Spec
CONSTANTS
  MaxDepth = 6
  DeepDepths <- Deep
INVARIANT Emit
CHECK_DEADLOCK FALSE
