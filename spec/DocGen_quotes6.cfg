\* quotes next to quotes, lists and code inside list items and quotes, <= 6 nodes
SPECIFICATION Spec
CONSTANTS
  LeafKinds <- QuoteLeaves
  ContKinds <- QuoteConts
  MaxNodes = 6
  MaxDepth = 2
INVARIANT Emit
CHECK_DEADLOCK FALSE
