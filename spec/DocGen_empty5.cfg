\* lists with empty items anywhere (first, middle, last, nested, an item that starts with a list of empty items), <= 5 nodes
SPECIFICATION Spec
CONSTANTS
  LeafKinds <- EmptyItemLeaves
  ContKinds <- ListQuote
  MaxNodes = 5
  MaxDepth = 2
INVARIANT Emit
CHECK_DEADLOCK FALSE
