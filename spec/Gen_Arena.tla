----------------------------- MODULE Gen_Arena -----------------------------
(***************************************************************************)
(* Generator for the arena binding (spec -> implementation, C20): every    *)
(* history of at most MaxOps writes of catalogue shapes to the keys, as    *)
(* one HIST line; the harness performs them with Graph::update_key on the  *)
(* Markdown of the shape and records the arena after every write, and      *)
(* Trace_Arena.tla replays Arena!Update against the recording.             *)
(***************************************************************************)
EXTENDS Naturals, Sequences, TLC, Json

CONSTANTS GKeys, MaxOps, NTrees

T(k, c) == [k |-> k, c |-> c]
Lf(k) == T(k, <<>>)
\* a Reference node pointing at note t (9 = a note that does not exist); a leaf linking to the notes rs
Rf(t) == [k |-> "R", c |-> <<>>, tgt |-> t]
Ll(rs) == [k |-> "L", c |-> <<>>, refs |-> rs]

Tree(i) ==
    CASE i = 1 -> T("D", <<T("S", <<Ll(<<2>>)>>)>>)
      [] i = 2 -> T("D", <<T("S", <<Lf("L"), T("S", <<Ll(<<1, 9>>)>>), T("S", <<Rf(2)>>)>>)>>)
      [] i = 3 -> T("D", <<Lf("L"), T("BL", <<T("S", <<>>), T("S", <<Ll(<<1>>)>>)>>), Rf(1)>>)
      [] i = 4 -> T("D", <<T("S", <<[k |-> "T", c |-> <<>>, refs |-> <<2>>], Lf("L"), Rf(1)>>)>>)
      [] i = 5 -> T("D", <<T("Q", <<Ll(<<2>>), Lf("L")>>), Rf(9)>>)
      [] i = 6 -> T("D", <<T("S", <<T("OL", <<T("S", <<T("BL", <<T("S", <<>>)>>)>>)>>), Lf("Raw"), Lf("HR"), Rf(2), Ll(<<1>>)>>)>>)
      [] i = 7 -> T("D", <<>>)
      [] i = 8 -> T("D", <<T("S", <<Lf("T"), Lf("T"), T("Q", <<Lf("T"), Rf(1)>>), Lf("HR"), Lf("Raw"), Lf("Raw"), Rf(2), Rf(2)>>)>>)
      [] i = 9 -> T("D", <<T("S", <<T("BL", <<T("S", <<Lf("Raw"), Ll(<<2, 1>>)>>), T("S", <<T("Q", <<Lf("L")>>), Lf("T")>>)>>),
                                    T("S", <<T("S", <<T("S", <<Ll(<<1>>)>>)>>)>>)>>),
                          T("S", <<Rf(1)>>)>>)
      \* shapes that only one particular source text produces (the text is carried along):
      \* an item that starts with a list is merged into the enclosing list, what follows belongs to the last merged item
      [] i = 10 -> [k |-> "D", c |-> <<T("BL", <<T("S", <<T("BL", <<T("S", <<>>)>>), Lf("L")>>)>>)>>,
                    md |-> "- - a\n    - b\n\n  tail\n"]
      \* an item that starts with a list of empty items carries nothing; the next item is still an item of the list
      [] i = 12 -> [k |-> "D", c |-> <<Lf("L"), T("OL", <<T("S", <<Lf("Raw")>>)>>), Lf("L")>>,
                    md |-> "p\n\n1. 1)\n\n1.     code3 line\nline\n"]
      \* ... and what follows such a list inside the item is the item
      [] i = 13 -> [k |-> "D", c |-> <<T("BL", <<T("S", <<>>), T("S", <<>>)>>)>>,
                    md |-> "- -\n\n  tail\n- x\n"]
      \* an item that starts with a code block has an empty text of its own
      [] i = 11 -> [k |-> "D", c |-> <<T("S", <<T("BL", <<T("S", <<Lf("Raw"), Lf("L")>>), T("S", <<>>)>>)>>)>>,
                    md |-> "# h\n\n- ```\n  code\n  ```\n\n  p\n- x\n"]

VARIABLE hist
GInit == hist = <<>>
GNext == /\ Len(hist) < MaxOps
         /\ \E k \in GKeys, i \in 1..NTrees : hist' = Append(hist, [k |-> k, tree |-> Tree(i)])
GSpec == GInit /\ [][GNext]_hist

Emit == hist # <<>> => PrintT(<<"HIST", ToJson([ops |-> hist])>>)
=============================================================================
