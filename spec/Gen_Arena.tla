----------------------------- MODULE Gen_Arena -----------------------------
(***************************************************************************)
(* Generator for the arena binding (spec -> implementation, C20): every    *)
(* history of at most MaxOps writes of catalogue shapes to the keys, as    *)
(* one HIST line; the harness performs them with Graph::update_key on the  *)
(* Markdown of the shape and records the arena after every write, and      *)
(* Trace_Arena.tla replays Arena!Update against the recording.             *)
(***************************************************************************)
EXTENDS Naturals, Sequences, TLC, Json

CONSTANTS GKeys, MaxOps, NTrees

T(k, c) == [k |-> k, c |-> c]
Lf(k) == T(k, <<>>)

Tree(i) ==
    CASE i = 1 -> T("D", <<T("S", <<Lf("L")>>)>>)
      [] i = 2 -> T("D", <<T("S", <<Lf("L"), T("S", <<Lf("L")>>), T("S", <<Lf("R")>>)>>)>>)
      [] i = 3 -> T("D", <<Lf("L"), T("BL", <<T("S", <<>>), T("S", <<Lf("L")>>)>>), Lf("L")>>)
      [] i = 4 -> T("D", <<T("S", <<Lf("T"), Lf("L"), Lf("R")>>)>>)
      [] i = 5 -> T("D", <<T("Q", <<Lf("L"), Lf("L")>>), Lf("R")>>)
      [] i = 6 -> T("D", <<T("S", <<T("OL", <<T("S", <<T("BL", <<T("S", <<>>)>>)>>)>>), Lf("Raw"), Lf("HR")>>)>>)
      [] i = 7 -> T("D", <<>>)
      [] i = 8 -> T("D", <<T("S", <<Lf("T"), Lf("T"), T("Q", <<Lf("T"), Lf("R")>>), Lf("HR"), Lf("Raw"), Lf("Raw"), Lf("R"), Lf("R")>>)>>)
      [] i = 9 -> T("D", <<T("S", <<T("BL", <<T("S", <<Lf("Raw"), Lf("L")>>), T("S", <<T("Q", <<Lf("L")>>), Lf("T")>>)>>),
                                    T("S", <<T("S", <<T("S", <<Lf("L")>>)>>)>>)>>),
                          T("S", <<Lf("L")>>)>>)
      \* shapes that only one particular source text produces (the text is carried along):
      \* an item that starts with a list is merged into the enclosing list, what follows belongs to the last merged item
      [] i = 10 -> [k |-> "D", c |-> <<T("BL", <<T("S", <<T("BL", <<T("S", <<>>)>>), Lf("L")>>)>>)>>,
                    md |-> "- - a\n    - b\n\n  tail\n"]
      \* an item that starts with a code block has an empty text of its own
      [] i = 11 -> [k |-> "D", c |-> <<T("S", <<T("BL", <<T("S", <<Lf("Raw"), Lf("L")>>), T("S", <<>>)>>)>>)>>,
                    md |-> "# h\n\n- ```\n  code\n  ```\n\n  p\n- x\n"]

VARIABLE hist
GInit == hist = <<>>
GNext == /\ Len(hist) < MaxOps
         /\ \E k \in GKeys, i \in 1..NTrees : hist' = Append(hist, [k |-> k, tree |-> Tree(i)])
GSpec == GInit /\ [][GNext]_hist

Emit == hist # <<>> => PrintT(<<"HIST", ToJson([ops |-> hist])>>)
=============================================================================
