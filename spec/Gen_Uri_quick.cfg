SPECIFICATION Spec
CONSTANTS
  MaxLen = 2
  NameClasses <- AllClasses
INVARIANTS DesignOK Emit
CHECK_DEADLOCK FALSE
