------------------------------ MODULE DocImpl ------------------------------
(***************************************************************************)
(* The section splitter, transcribed (crates/liwe/src/graph/               *)
(* sections_builder.rs: process_blocks / process_section / ranges) for one *)
(* container: c is the sequence of its blocks, 0 = a block that is not a   *)
(* heading, n in 1..6 = a heading of level n.                              *)
(*                                                                         *)
(*   process_blocks(lo..hi, d): the blocks before the first heading become *)
(*   nodes at depth d; L = level of the first heading; the rest is cut at  *)
(*   every heading of level <= L, and each piece is a section at depth d   *)
(*   whose remaining blocks are process_blocks'ed at depth d + 1.          *)
(*                                                                         *)
(* Predict(c) is the depth of every block; the formatter writes a heading  *)
(* at depth d with d + 1 hashes.  The C07 requirements on outlines are     *)
(* stated over Predict and model-checked for every sequence up to a bound  *)
(* (MC_DocImpl); the real formatter's heading levels are compared with     *)
(* Predict by Trace_DocImpl (drift of the model from the code is reported  *)
(* in the evidence, it is not a violation of C07: the property allows any  *)
(* well-nested mapping of an outline that is not well-nested).             *)
(***************************************************************************)
EXTENDS Naturals, Sequences, FiniteSets

Min(S) == CHOOSE x \in S : \A y \in S : x <= y
Max(S) == CHOOSE x \in S : \A y \in S : x >= y

\* first_header(lo..hi): position of the first heading in [lo, hi), or hi
FirstHeader(c, lo, hi) == LET hs == {i \in lo..(hi - 1) : c[i] > 0} IN IF hs = {} THEN hi ELSE Min(hs)

RECURSIVE ProcessBlocks(_, _, _, _), Sections(_, _, _, _, _)

\* sequence of <<position, depth>> in the order the nodes are created
ProcessBlocks(c, lo, hi, d) ==
    IF lo >= hi THEN <<>>
    ELSE LET fh == FirstHeader(c, lo, hi)
             pre == [i \in 1..(fh - lo) |-> <<lo + i - 1, d>>]
         IN  IF fh = hi THEN pre ELSE pre \o Sections(c, fh, hi, c[fh], d)

\* positions / ranges: p is a heading of level <= L; its section runs to the next such heading
Sections(c, p, hi, L, d) ==
    LET nxt == {x \in (p + 1)..(hi - 1) : c[x] > 0 /\ c[x] <= L}
        e == IF nxt = {} THEN hi ELSE Min(nxt)
    IN  <<<<p, d>>>> \o ProcessBlocks(c, p + 1, e, d + 1) \o (IF e = hi THEN <<>> ELSE Sections(c, e, hi, L, d))

Predict(c) == ProcessBlocks(c, 1, Len(c) + 1, 0)
Depth(c) == [i \in 1..Len(c) |-> Predict(c)[i][2]]

Headings(c) == {i \in 1..Len(c) : c[i] > 0}
InLevels(c) == SelectSeq(c, LAMBDA x : x > 0)
OutLevels(c) == LET p == Predict(c)
                    hs == SelectSeq(p, LAMBDA e : c[e[1]] > 0)
                IN  [i \in 1..Len(hs) |-> hs[i][2] + 1]

(***************************************************************************)
(* C07 over Predict                                                        *)
(***************************************************************************)
WellNestedSeq(ls) == /\ (ls # <<>> => ls[1] = 1)
                     /\ \A i \in 1..(Len(ls) - 1) : ls[i + 1] <= ls[i] + 1

\* every block produces exactly one node, in document order
OrderKept(c) == /\ Len(Predict(c)) = Len(c)
                /\ \A i \in 1..Len(c) : Predict(c)[i][1] = i

\* the outline that is written is well-nested, and a well-nested outline is reproduced
OutWellNested(c) == WellNestedSeq(OutLevels(c))
Reproduced(c) == WellNestedSeq(InLevels(c)) => OutLevels(c) = InLevels(c)

\* every block stays under the same heading: a block that is not a heading sits one deeper than
\* the heading before it (and so, nodes being in document order, is a child of exactly that heading)
PrevHeading(c, i) == LET hs == {j \in Headings(c) : j < i} IN IF hs = {} THEN 0 ELSE Max(hs)
UnderSameHeading(c) ==
    \A i \in 1..Len(c) : c[i] = 0 =>
        Depth(c)[i] = (IF PrevHeading(c, i) = 0 THEN 0 ELSE Depth(c)[PrevHeading(c, i)] + 1)

\* a heading is never nested below a heading of the same or a deeper source level
OutParent(c, j) == LET ps == {i \in Headings(c) : i < j /\ Depth(c)[i] = Depth(c)[j] - 1} IN IF ps = {} THEN 0 ELSE Max(ps)
NeverUnderPeer(c) ==
    \A j \in Headings(c) : Depth(c)[j] > 0 => (OutParent(c, j) # 0 /\ c[OutParent(c, j)] < c[j])

\* depth never jumps by more than one between consecutive nodes (the tree is well-formed)
NoJump(c) == /\ (c # <<>> => Depth(c)[1] = 0)
             /\ \A i \in 1..(Len(c) - 1) : Depth(c)[i + 1] <= Depth(c)[i] + 1

C07OnPredict(c) == OrderKept(c) /\ OutWellNested(c) /\ Reproduced(c) /\ UnderSameHeading(c) /\ NeverUnderPeer(c) /\ NoJump(c)
=============================================================================
