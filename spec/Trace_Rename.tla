---------------------------- MODULE Trace_Rename ----------------------------
(***************************************************************************)
(* Judge for C08.  One line per rename request issued at one link          *)
(* occurrence (site) of a TLC-generated library with one new name: the     *)
(* views (Refactor.tla) of all notes before, and of all notes after the    *)
(* returned workspace edit was applied to a copy of the library.           *)
(*   old = the note the link at the site resolves to (from the site's      *)
(*         directory), new = the note the new name denotes at that site    *)
(***************************************************************************)
EXTENDS Refactor, Keys, Integers, Json, IOUtils

Rec == ndJsonDeserialize(IOEnv.TRACE)
Devs == {Rec[1].devs[i] : i \in 1..Len(Rec[1].devs)}
VARIABLE l
Init == l = 2

Old(e) == Resolve(e.site_dir, e.url)
New(e) == Resolve(e.site_dir, e.new_name)
Keys0(e) == Range(e.keys_before)

Targets(v) == [i \in 1..Len(v.links) |-> v.links[i].target]
Moved(e, t) == IF t = Old(e) THEN New(e) ELSE t
TitleOf(v) == IF v.shape # <<>> /\ v.shape[1].k = "H" THEN v.shape[1].first ELSE ""

\* what every note must look like afterwards: the note k of before is found under Moved(k)
NoteReasons(e, b, a, title) ==
    (IF a.words # b.words THEN {<<"content-changed", b.key>>} ELSE {})
    \cup (IF a.meta # b.meta THEN {<<"front-matter-changed", b.key>>} ELSE {})
    \cup (IF Len(a.links) # Len(b.links) THEN {<<"link-count-changed", b.key>>}
          ELSE {<<"link-retargeted", b.key, i, b.links[i].target, a.links[i].target>> :
                    i \in {j \in 1..Len(b.links) : ~b.links[j].ext /\ a.links[j].target # Moved(e, b.links[j].target)}}
               \cup {<<"link-text-lost", b.key, i, b.links[i].text, a.links[i].text>> :
                    i \in {j \in 1..Len(b.links) : b.links[j].target = Old(e) /\ b.links[j].kind # "wiki"
                                                     /\ a.links[j].text # b.links[j].text /\ (title = "" \/ a.links[j].text_first # title)}})

Reasons(e) ==
    IF ~e.prepare_ok THEN {}                              \* not a link the server recognises at this position
    ELSE IF Old(e) \notin Keys0(e)
    THEN (IF e.res_class \in {"ok", "bad-edit"} THEN {<<"renamed-a-missing-note">>} ELSE {})
    ELSE IF New(e) \in Keys0(e)
    \* "renaming onto an existing note is refused without edits": an edit that the client would
    \* have to reject (creating over an existing file) is not a refusal
    THEN (IF e.res_class \in {"ok", "bad-edit"} THEN {<<"taken-name-not-refused", New(e), e.res>>} ELSE {})
    ELSE IF e.res # "ok" THEN {<<"rename-failed", e.res>>}
    ELSE LET before == e.all_before
             after == e.after
             keysA == {v.key : v \in Range(after)}
             title == TitleOf(ViewOf(before, Old(e)))
         IN  (IF Range(e.deleted) # {Old(e)} THEN {<<"deleted", e.deleted>>} ELSE {})
             \cup (IF Range(e.created) # {New(e)} THEN {<<"created", e.created>>} ELSE {})
             \cup (IF keysA # (Keys0(e) \ {Old(e)}) \cup {New(e)} THEN {<<"notes-after", keysA>>} ELSE {})
             \cup UNION {IF Moved(e, b.key) \in keysA THEN NoteReasons(e, b, ViewOf(after, Moved(e, b.key)), title) ELSE {<<"note-missing", b.key>>}
                         : b \in Range(before)}
             \* every unrelated note is untouched
             \cup {<<"unrelated-note-touched", a.key>> :
                      a \in {v \in Range(after) : v.key # New(e) /\ ~v.same
                                                  /\ HasView(before, v.key) /\ Old(e) \notin Range(Targets(ViewOf(before, v.key)))}}

(***************************************************************************)
(* F-C08-1 (open): rename empties the visible text of links inside text    *)
(* that pointed at the renamed note (Tree::change_key drops the inlines;   *)
(* pinned by rename_test::rename_inline_references).                       *)
(***************************************************************************)
Explained(e, rs) == IF "F-C08-1" \in Devs THEN {r \in rs : ~(r[1] = "link-text-lost" /\ r[5] = "")} ELSE rs

Step == /\ l <= Len(Rec) /\ l' = l + 1
        /\ LET e == Rec[l] IN
           IF e.ev = "Rename" /\ Reasons(e) # {}
           THEN PrintT(<<"VERDICT", ToJson([case |-> e.case, ideal |-> Reasons(e), bad |-> Explained(e, Reasons(e)),
                                            explained |-> IF Explained(e, Reasons(e)) # Reasons(e) THEN {"F-C08-1"} ELSE {}])>>)
           ELSE TRUE
Spec == Init /\ [][Step]_l
Accepted == IF TLCGet("stats").diameter = Len(Rec) THEN PrintT(<<"ACCEPTED", Len(Rec)>>)
            ELSE PrintT(<<"UNCONSUMED", TLCGet("stats").diameter, Len(Rec)>>) /\ FALSE
=============================================================================
