------------------------------- MODULE DocGen -------------------------------
(***************************************************************************)
(* Generator of abstract documents (spec -> implementation, E-doc).        *)
(*                                                                         *)
(* A document is built in pre-order along its right spine: each step       *)
(* appends a leaf, opens a container holding a first leaf, or starts a new *)
(* item of a list that is still open, at any open depth.  Every document   *)
(* over the chosen alphabet with at most MaxNodes nodes and nesting depth  *)
(* at most MaxDepth is reached exactly once, and every reachable state is  *)
(* printed as one vector.  Leaves carry words that are unique in the       *)
(* document (w<n>a, w<n>b ...), so duplication, loss and merging of text   *)
(* are visible as differences of word sequences.                           *)
(***************************************************************************)
EXTENDS Naturals, Sequences, TLC, Json

CONSTANTS
    LeafKinds,   \* subset of {"H1".."H6", "P", "P2" (two lines), "Code", "CodeL" (with language), "CodeF" (fence in the body), "Rule", "Tbl", "Html", "Ref", "EQ" (an empty quote), "EI" (an empty item)}
    ContKinds,   \* subset of {"Q", "BL", "OL"}
    MaxNodes,
    MaxDepth

VARIABLES doc, n
vars == <<doc, n>>

B(k, l, t, c, items, rows, x) == [k |-> k, l |-> l, t |-> t, c |-> c, items |-> items, rows |-> rows, x |-> x]
T(k, s, c, x) == [k |-> k, s |-> s, c |-> c, x |-> x]
W(s) == T("W", s, <<>>, "")
SP == T("SP", "", <<>>, "")
SB == T("SB", "", <<>>, "")

Id(i) == ToString(i)

Leaf(kind, i) ==
    CASE kind \in {"H1", "H2", "H3", "H4", "H5", "H6"} ->
            B("H", CASE kind = "H1" -> 1 [] kind = "H2" -> 2 [] kind = "H3" -> 3 [] kind = "H4" -> 4 [] kind = "H5" -> 5 [] OTHER -> 6,
              <<W("h" \o Id(i))>>, <<>>, <<>>, <<>>, "")
      [] kind = "P" -> B("P", 0, <<W("p" \o Id(i) \o "a"), SP, W("p" \o Id(i) \o "b")>>, <<>>, <<>>, <<>>, "")
      [] kind = "P2" -> B("P", 0, <<W("q" \o Id(i) \o "a"), SB, W("q" \o Id(i) \o "b")>>, <<>>, <<>>, <<>>, "")
      [] kind = "Code" -> B("Code", 0, <<W("code" \o Id(i) \o " line")>>, <<>>, <<>>, <<>>, "")
      [] kind = "CodeL" -> B("Code", 0, <<W("code" \o Id(i))>>, <<>>, <<>>, <<>>, "rust")
      \* a code block whose body contains a fence line
      [] kind = "CodeF" -> B("Code", 0, <<W("code" \o Id(i) \o "\n```\nmore" \o Id(i))>>, <<>>, <<>>, <<>>, "")
      [] kind = "Rule" -> B("Rule", 0, <<>>, <<>>, <<>>, <<>>, "")
      \* an empty block quote (a line holding only ">")
      [] kind = "EQ" -> B("Q", 0, <<>>, <<>>, <<>>, <<>>, "")
      [] kind = "Html" -> B("Html", 0, <<>>, <<>>, <<>>, <<>>, "<div>html" \o Id(i) \o "</div>\n")
      [] kind = "Ref" -> B("P", 0, <<T("Link", "note" \o Id(i), <<W("ref" \o Id(i))>>, "inline")>>, <<>>, <<>>, <<>>, "")
      [] kind = "Tbl" -> B("Tbl", 0, <<>>, <<>>, <<>>,
                           << << <<W("th" \o Id(i) \o "a")>>, <<W("th" \o Id(i) \o "b")>> >>,
                              << <<W("td" \o Id(i) \o "a")>>, <<W("td" \o Id(i) \o "b")>> >> >>, "")

Cont(kind, first) ==
    IF kind = "Q" THEN B("Q", 0, <<>>, <<first>>, <<>>, <<>>, "")
    ELSE B(kind, 0, <<>>, <<>>, << <<first>> >>, <<>>, "")

Last(s) == s[Len(s)]
IsCont(b) == b.k \in {"Q", "BL", "OL"}
Inner(b) == IF b.k = "Q" THEN b.c ELSE Last(b.items)
WithInner(b, inner) == IF b.k = "Q" THEN [b EXCEPT !.c = inner]
                       ELSE [b EXCEPT !.items = [b.items EXCEPT ![Len(b.items)] = inner]]

RECURSIVE SpineDepth(_), AddAt(_, _, _), NewItemAt(_, _, _), SpineKind(_, _)

\* number of containers open at the right end
SpineDepth(bs) == IF bs = <<>> \/ ~IsCont(Last(bs)) THEN 0 ELSE 1 + SpineDepth(Inner(Last(bs)))

\* append block b inside the d-th open container (d = 0: the top level)
AddAt(bs, d, b) == IF d = 0 THEN Append(bs, b)
                   ELSE [bs EXCEPT ![Len(bs)] = WithInner(Last(bs), AddAt(Inner(Last(bs)), d - 1, b))]

\* kind of the d-th open container (d >= 1)
SpineKind(bs, d) == IF d = 1 THEN Last(bs).k ELSE SpineKind(Inner(Last(bs)), d - 1)

\* start a new item holding b in the list that is the d-th open container
NewItemAt(bs, d, b) ==
    IF d = 1 THEN [bs EXCEPT ![Len(bs)] = [Last(bs) EXCEPT !.items = Append(@, <<b>>)]]
    ELSE [bs EXCEPT ![Len(bs)] = WithInner(Last(bs), NewItemAt(Inner(Last(bs)), d - 1, b))]

\* start a new, empty item in the list that is the d-th open container ("EI" among the leaf kinds)
RECURSIVE NewEmptyItemAt(_, _)
NewEmptyItemAt(bs, d) ==
    IF d = 1 THEN [bs EXCEPT ![Len(bs)] = [Last(bs) EXCEPT !.items = Append(@, <<>>)]]
    ELSE [bs EXCEPT ![Len(bs)] = WithInner(Last(bs), NewEmptyItemAt(Inner(Last(bs)), d - 1))]

Init == doc = <<>> /\ n = 0

AddLeaf(d, kind) ==
    /\ n < MaxNodes
    /\ kind # "EI"
    /\ doc' = AddAt(doc, d, Leaf(kind, n + 1))
    /\ n' = n + 1

OpenCont(d, ckind, kind) ==
    /\ n + 2 <= MaxNodes
    /\ d + 1 <= MaxDepth
    /\ (kind = "EI" => ckind # "Q")
    /\ doc' = IF kind = "EI" /\ ckind # "Q" THEN AddAt(doc, d, B(ckind, 0, <<>>, <<>>, << <<>> >>, <<>>, ""))
              ELSE AddAt(doc, d, Cont(ckind, Leaf(kind, n + 2)))
    /\ n' = n + 2

NewItem(d, kind) ==
    /\ n < MaxNodes
    /\ SpineKind(doc, d) \in {"BL", "OL"}
    /\ doc' = IF kind = "EI" THEN NewEmptyItemAt(doc, d) ELSE NewItemAt(doc, d, Leaf(kind, n + 1))
    /\ n' = n + 1

Next == \/ \E d \in 0..SpineDepth(doc), kind \in LeafKinds : AddLeaf(d, kind)
        \/ \E d \in 0..SpineDepth(doc), ck \in ContKinds, kind \in LeafKinds : OpenCont(d, ck, kind)
        \/ \E d \in 1..SpineDepth(doc), kind \in LeafKinds : NewItem(d, kind)

Spec == Init /\ [][Next]_vars

\* every document without front matter; the documents of up to two nodes also with a one-line and a two-line front matter
Emit == n >= 1 => /\ PrintT(<<"VEC", ToJson([doc |-> [meta |-> "", blocks |-> doc]])>>)
                  /\ (n <= 2 => /\ PrintT(<<"VEC", ToJson([doc |-> [meta |-> "k: v\n", blocks |-> doc]])>>)
                                /\ PrintT(<<"VEC", ToJson([doc |-> [meta |-> "a: b\nc: d\n", blocks |-> doc]])>>))
=============================================================================
