-------------------------------- MODULE Lib --------------------------------
(***************************************************************************)
(* A library at the ideal level: docs : Key -> Note, and everything the    *)
(* server answers as operators of docs alone (so history-freedom, C04, and *)
(* order/thread/seed independence, C16, hold by construction at this level *)
(* and are what the implementation is compared with).                      *)
(*                                                                         *)
(* Note  == [title : STRING ("" = the note does not start with a heading), *)
(*           blocks : Seq(LB)]                                             *)
(* LB    == [k, lvl, text, links]                                          *)
(*   k = "H"     sub-heading of level lvl (2 or 3) with text               *)
(*       "P"     paragraph: text, then its links inline                    *)
(*       "Ref"   block reference: a paragraph that is exactly one link     *)
(*       "Item"  bullet item (adjacent items form one list)                *)
(*       "Sub"   item nested in the previous item                          *)
(*       "Quote" quoted paragraph                                          *)
(*       "Em"    paragraph whose links sit inside emphasis                 *)
(*       "Em2"   ... inside strong emphasis inside emphasis (two spans)    *)
(*       "Tbl"   table whose last cell holds the links                     *)
(*       "Code"  code block (text is the body, no links)                   *)
(*       "Meta"  front matter (only as the first block; text is its value) *)
(*       "QH" / "QP"  heading (level lvl) / paragraph inside a block quote *)
(*       "QRef"  a block reference inside a block quote                    *)
(*       "QR"    a block reference under a heading inside a block quote    *)
(*       "IRef"  a list item whose second paragraph is a block reference   *)
(*               (neither is an inclusion by a heading: see Includes)       *)
(* Link  == [url : Url, kind, text, ext]                                   *)
(*   kind = "inline" | "wiki" | "piped" | "auto";  ext = TRUE for external *)
(*   urls (http:, HTTPS:, mailto:), whose url.segs holds the whole url     *)
(* Texts are unique words, so a heading, block or link is identified by    *)
(* its text.                                                               *)
(***************************************************************************)
EXTENDS Keys, FiniteSets, TLC, Bags

(***************************************************************************)
(* titles                                                                  *)
(***************************************************************************)
Has(docs, k) == k \in DOMAIN docs
TitleOf(docs, k) == IF Has(docs, k) THEN docs[k].title ELSE ""

(***************************************************************************)
(* link occurrences                                                        *)
(***************************************************************************)
\* T(src, block, link) = the note the link points to (parameter, so that a named deviation
\* of the implementation can be expressed as another T)
OccsWith(docs, T(_, _, _)) ==
    UNION {UNION {{[src |-> k, bi |-> bi, li |-> li, carrier |-> docs[k].blocks[bi].k,
                    link |-> docs[k].blocks[bi].links[li],
                    target |-> T(k, docs[k].blocks[bi], docs[k].blocks[bi].links[li])]
                   : li \in 1..Len(docs[k].blocks[bi].links)}
                  : bi \in 1..Len(docs[k].blocks)}
           : k \in DOMAIN docs}

\* ideal: relative to the directory of the linking note, for every kind of link
IdealTarget(src, b, l) == IF l.ext THEN NoKey ELSE Resolve(Dir(src), l.url)

Occs(docs) == OccsWith(docs, IdealTarget)

(***************************************************************************)
(* C05  "report exactly the places in the library whose link resolves to   *)
(* that note -- block-level references and links inside paragraphs,        *)
(* headings and list items alike -- with the target resolved relative to   *)
(* the directory of the linking note, .md suffix ignored, external URLs    *)
(* excluded.  Each reported location is the linking note and the line of   *)
(* the linking block."   A place = <<note, block index>>.                  *)
(***************************************************************************)
BacklinksWith(docs, k, T(_, _, _)) == {<<o.src, o.bi>> : o \in {p \in OccsWith(docs, T) : p.target = k}}
Backlinks(docs, k) == BacklinksWith(docs, k, IdealTarget)

(***************************************************************************)
(* C06  text of every ordinary link or block reference to an existing note *)
(* that starts with a heading = that heading; everything else keeps text   *)
(* and kind; no link changes the note it resolves to.                      *)
(* Expected link after formatting, as <<kind, target, text>>.              *)
(***************************************************************************)
Refreshable(l) == ~l.ext /\ l.kind = "inline"

\* the title is looked up at T(src, b, l); the destination itself never changes
ExpectedLinkWith(docs, src, b, l, T(_, _, _)) ==
    LET target == IF l.ext THEN NoKey ELSE Resolve(Dir(src), l.url)
        titled == T(src, b, l)
        title == TitleOf(docs, titled)
    IN  [kind |-> l.kind,
         ext |-> l.ext,
         target |-> IF l.ext THEN l.url.segs ELSE target,
         text |-> IF Refreshable(l) /\ Has(docs, titled) /\ title # "" THEN title
                  ELSE IF l.kind = "wiki" THEN "" ELSE l.text]

RECURSIVE FlattenSeq2(_)
FlattenSeq2(ss) == IF ss = <<>> THEN <<>> ELSE Head(ss) \o FlattenSeq2(Tail(ss))

ExpectedLinksWith(docs, k, T(_, _, _)) ==
    FlattenSeq2([bi \in 1..Len(docs[k].blocks) |->
                   [li \in 1..Len(docs[k].blocks[bi].links) |->
                      ExpectedLinkWith(docs, k, docs[k].blocks[bi], docs[k].blocks[bi].links[li], T)]])
ExpectedLinks(docs, k) == ExpectedLinksWith(docs, k, IdealTarget)

(***************************************************************************)
(* C18  outline paths.  Headings are <<key, 0>> (the title) and <<key, bi>> *)
(* for "H" blocks.  A path is a chain of headings where each step goes to  *)
(* a sub-heading or to the top-level heading of a note the heading         *)
(* includes by block reference.                                            *)
(***************************************************************************)
Headings(docs) ==
    {<<k, 0>> : k \in {x \in DOMAIN docs : docs[x].title # ""}}
    \cup UNION {{<<k, bi>> : bi \in {i \in 1..Len(docs[k].blocks) : docs[k].blocks[i].k = "H"}} : k \in DOMAIN docs}

HText(docs, h) == IF h[2] = 0 THEN docs[h[1]].title ELSE docs[h[1]].blocks[h[2]].text
HLevel(docs, h) == IF h[2] = 0 THEN 1 ELSE docs[h[1]].blocks[h[2]].lvl

\* heading that owns block bi of note k: the nearest preceding heading (the title if none)
Owner(docs, k, bi) ==
    LET hs == {i \in 1..(bi - 1) : docs[k].blocks[i].k = "H"}
    IN  IF hs = {} THEN <<k, 0>> ELSE <<k, CHOOSE i \in hs : \A j \in hs : j <= i>>

\* parent heading of an "H" block: nearest preceding heading of lower level
ParentH(docs, h) ==
    LET k == h[1]
        hs == {i \in 1..(h[2] - 1) : docs[k].blocks[i].k = "H" /\ docs[k].blocks[i].lvl < docs[k].blocks[h[2]].lvl}
    IN  IF hs = {} THEN <<k, 0>> ELSE <<k, CHOOSE i \in hs : \A j \in hs : j <= i>>

SubHeading(docs, a, b) == b[2] # 0 /\ a[1] = b[1] /\ ParentH(docs, b) = a

\* heading a includes note n by a block reference directly under it
Includes(docs, a, n) ==
    \E bi \in 1..Len(docs[a[1]].blocks) :
        /\ docs[a[1]].blocks[bi].k = "Ref"
        /\ Owner(docs, a[1], bi) = a
        /\ ~docs[a[1]].blocks[bi].links[1].ext
        /\ Resolve(Dir(a[1]), docs[a[1]].blocks[bi].links[1].url) = n

PathStep(docs, a, b) == \/ SubHeading(docs, a, b)
                        \/ b[2] = 0 /\ Has(docs, b[1]) /\ Includes(docs, a, b[1])

\* a listed path (a sequence of headings) is a real chain
SoundPath(docs, p) == /\ p # <<>>
                      /\ \A i \in 1..Len(p) : p[i] \in Headings(docs)
                      /\ \A i \in 1..(Len(p) - 1) : PathStep(docs, p[i], p[i + 1])

\* every heading ends some listed path
Complete(docs, paths) == \A h \in Headings(docs) : \E p \in paths : p # <<>> /\ p[Len(p)] = h

(***************************************************************************)
(* C17  squash to depth d: every block reference to an existing note is    *)
(* replaced by that note's content squashed with d-1; references to        *)
(* missing notes and references at depth 0 stay links; everything else is  *)
(* kept once.  Content is compared as a bag of texts (sibling order of     *)
(* expanded references is left free).  Entries are <<"text", <<word>>>> and  *)
(* <<"ref", key>> (a kept link), both with a sequence as second component. *)
(***************************************************************************)
RECURSIVE SquashBag(_, _, _), SumBags(_)
SumBags(bs) == IF bs = <<>> THEN EmptyBag ELSE Head(bs) (+) SumBags(Tail(bs))

BlockBag(docs, k, b, d) ==
    IF b.k = "Ref" /\ ~b.links[1].ext
    THEN LET t == Resolve(Dir(k), b.links[1].url)
         IN  IF d > 0 /\ Has(docs, t) THEN SquashBag(docs, t, d - 1)
             ELSE SetToBag({<<"ref", t>>})
    ELSE SetToBag({<<"text", <<b.text>>>>})

SquashBag(docs, k, d) ==
    (IF docs[k].title # "" THEN SetToBag({<<"text", <<docs[k].title>>>>}) ELSE EmptyBag)
    (+) SumBags([bi \in 1..Len(docs[k].blocks) |-> BlockBag(docs, k, docs[k].blocks[bi], d)])
=============================================================================
