SPECIFICATION MSpec
CONSTANTS
  MaxLen = 7
  MaxLevel = 6
INVARIANT Holds
CHECK_DEADLOCK FALSE
