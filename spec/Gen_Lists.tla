------------------------------ MODULE Gen_Lists ------------------------------
(***************************************************************************)
(* Lists whose rendering depends on the item count and nesting: ordered    *)
(* markers change width at 10 and 100 items, continuation lines are padded *)
(* by the marker width, nested lists and second paragraphs hang off any    *)
(* item.  (C07: "off-by-one errors appear only for particular ... depths   *)
(* or item counts (e.g. >9 items)"; C02: numbering wider than 9.)          *)
(***************************************************************************)
EXTENDS Naturals, Sequences, TLC, Json

B(k, l, t, c, items, rows, x) == [k |-> k, l |-> l, t |-> t, c |-> c, items |-> items, rows |-> rows, x |-> x]
T(k, s, c, x) == [k |-> k, s |-> s, c |-> c, x |-> x]
W(s) == T("W", s, <<>>, "")
SB == T("SB", "", <<>>, "")
P(s) == B("P", 0, <<W(s)>>, <<>>, <<>>, <<>>, "")
P2(s) == B("P", 0, <<W(s \o "a"), SB, W(s \o "b")>>, <<>>, <<>>, <<>>, "")
L(kind, items) == B(kind, 0, <<>>, <<>>, items, <<>>, "")

Counts == {1, 2, 9, 10, 11, 99, 100, 101}
Extras == {"none", "para", "twoline", "code", "bullet", "ordered", "quote", "deep"}
Kinds == {"OL", "BL"}

Extra(x, i) ==
    CASE x = "none" -> <<>>
      [] x = "para" -> <<P("second" \o ToString(i))>>
      [] x = "twoline" -> <<P2("tw" \o ToString(i))>>
      [] x = "code" -> <<B("Code", 0, <<W("code" \o ToString(i))>>, <<>>, <<>>, <<>>, "")>>
      [] x = "bullet" -> <<L("BL", << <<P("sub" \o ToString(i) \o "a")>>, <<P("sub" \o ToString(i) \o "b")>> >>)>>
      [] x = "ordered" -> <<L("OL", << <<P("num" \o ToString(i) \o "a")>>, <<P("num" \o ToString(i) \o "b")>> >>)>>
      [] x = "quote" -> <<B("Q", 0, <<>>, <<P("quoted" \o ToString(i))>>, <<>>, <<>>, "")>>
      [] x = "deep" -> <<L("OL", << <<P("d1x" \o ToString(i)), L("BL", << <<P("d2x" \o ToString(i)), L("OL", << <<P("d3x" \o ToString(i))>> >>)>> >>)>> >>)>>

\* a list of n items; item `at` carries the extra blocks
Items(n, at, x) == [i \in 1..n |-> <<P("item" \o ToString(i))>> \o (IF i = at THEN Extra(x, i) ELSE <<>>)]

\* runs of two to four lists directly after one another, of the same or of alternating kinds, at the top
\* level, inside an item and inside a quote (adjacent lists of one kind need different markers to stay apart)
Small(k, j) == L(k, << <<P("r" \o ToString(j) \o "a")>>, <<P("r" \o ToString(j) \o "b")>> >>)
Run(ks) == [j \in 1..Len(ks) |-> Small(ks[j], j)]
RunKinds == UNION {[1..m -> Kinds] : m \in 2..4}
Place(where, bs) ==
    CASE where = "top" -> bs
      [] where = "item" -> <<L("BL", << <<P("host")>> \o bs >>)>>
      [] where = "quote" -> <<B("Q", 0, <<>>, bs, <<>>, <<>>, "")>>

VARIABLES doc, done
Init == doc = <<>> /\ done = FALSE
Next == /\ ~done
        /\ \/ \E k \in Kinds, n \in Counts, x \in Extras, at \in {1, 9, 10, 100} :
                /\ at <= n
                /\ doc' = <<L(k, Items(n, at, x))>>
                /\ done' = TRUE
           \/ \E ks \in RunKinds, where \in {"top", "item", "quote"} :
                /\ doc' = Place(where, Run(ks))
                /\ done' = TRUE
Spec == Init /\ [][Next]_<<doc, done>>
Emit == done => PrintT(<<"VEC", ToJson([doc |-> [meta |-> "", blocks |-> doc]])>>)
=============================================================================
