\* all heading-level / paragraph sequences of length <= 4
SPECIFICATION Spec
CONSTANTS
  LeafKinds <- HeadLeaves
  ContKinds <- NoConts
  MaxNodes = 4
  MaxDepth = 0
INVARIANT Emit
CHECK_DEADLOCK FALSE
