------------------------------ MODULE Gen_Uri ------------------------------
(***************************************************************************)
(* C14 universe: file names of up to MaxLen character classes x directory  *)
(* x library base path; the ideal obligation OneNote is an invariant, the  *)
(* pinned implementation's (ImplOneNote) is expected to fail exactly on    *)
(* names that need encoding.                                               *)
(***************************************************************************)
EXTENDS Uri, Json

CONSTANTS MaxLen, NameClasses

Names == UNION {[1..m -> NameClasses] : m \in 1..MaxLen}
DirsU == {"", "sub", "sub dir", "süb/deep", "v1.2", "arch.md"}
Bases == {"plain", "with space", "trailing-slash", "ünï", "symlink", "dotdot"}

VARIABLES name, dir, base, done
vars == <<name, dir, base, done>>
Init == name = <<>> /\ dir = "" /\ base = "" /\ done = FALSE
Next == /\ ~done
        /\ \E n \in Names, d \in DirsU, b \in Bases :
             /\ n[1] # "dot"                         \* hidden files / "." are not notes
             /\ name' = n /\ dir' = d /\ base' = b /\ done' = TRUE
Spec == Init /\ [][Next]_vars

DesignOK == done => OneNote(name)
PinnedDesignOK == done => ImplOneNote(name) /\ ImplUriOfKeyOK(name)

Emit == done => PrintT(<<"CASE", ToJson([name |-> name, dir |-> dir, base |-> base])>>)
=============================================================================
