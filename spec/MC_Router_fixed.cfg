\* the repaired design: loop waits for exclusive access, worker panics are answered
SPECIFICATION FairSpec
CONSTANTS
  Keys <- MCKeys
  Classes <- MCClasses
  NReq = 2
  NNot = 2
  Design = "wait"
  Catch = TRUE
INVARIANTS TypeOK NoLostNotification QuiescentStateIsLastText ReadYourWrites
           AtMostOneResponse ExactlyOneResponseWhenQuiescent LoopSurvives
PROPERTIES EventuallyQuiescent EveryRequestAnswered EveryNotificationApplied
CHECK_DEADLOCK FALSE
