\* empty block quotes anywhere among headings of two levels and paragraphs, <= 5 nodes
SPECIFICATION Spec
CONSTANTS
  LeafKinds <- EmptyQuoteLeaves
  ContKinds <- NoConts
  MaxNodes = 5
  MaxDepth = 1
INVARIANT Emit
CHECK_DEADLOCK FALSE
