---------------------------- MODULE Trace_FsSnap ----------------------------
(***************************************************************************)
(* Judge for C19 (implementation -> specification, ideal level).           *)
(*                                                                         *)
(* Each line is one run of the real `iwe normalize` on a generated tree    *)
(* with one injected fault: the abstract state of every file afterwards    *)
(* (old / new / both / empty / partial / absent / other), how the process  *)
(* ended, and which paths exist that did not exist before.  The predicates *)
(* are those of Fs.tla (Intact, InPlace, NothingElseTouched) evaluated on  *)
(* the observed end state; mutating system calls seen in the strace log of *)
(* the run are judged by TouchesOnlyNotes.                                 *)
(*                                                                         *)
(* Line 1 is {"ev":"Config","devs":[...]}: the ids of the open known       *)
(* findings whose deviation may explain a failure (Deviations, below).     *)
(***************************************************************************)
EXTENDS Integers, Sequences, FiniteSets, TLC, Json, IOUtils

Rec == ndJsonDeserialize(IOEnv.TRACE)

Devs == {Rec[1].devs[i] : i \in 1..Len(Rec[1].devs)}

VARIABLES l, nbad, nknown
vars == <<l, nbad, nknown>>

Range(s) == {s[i] : i \in 1..Len(s)}

OkStates == {"old", "new", "both"}
NewStates == {"new", "both"}

(***************************************************************************)
(* Deviation F-C19-2 (open finding): a note read from x.md.md gets the key *)
(* x (every trailing ".md" is trimmed), so it is left untouched and its    *)
(* new text is written to x.md instead.                                    *)
(***************************************************************************)
MdMdNotes(e) == {n \in Range(e.notes) : n.mdmd}
DevMdMd(e) == "F-C19-2" \in Devs /\ MdMdNotes(e) # {}

Reasons(e, dev) ==
    LET notes == Range(e.notes)
        excusedNotes == IF dev THEN MdMdNotes(e) ELSE {}
        excusedExtra == IF dev THEN {n.alt : n \in MdMdNotes(e)} ELSE {}
    IN  {<<"damaged-note", n.path, n.state>> : n \in {m \in notes : m.state \notin OkStates}}
   \cup (IF e.outcome = "done"
         THEN {<<"not-rewritten-in-place", n.path, n.state>> :
                   n \in {m \in notes \ excusedNotes : m.state \notin NewStates}}
         ELSE {})
   \cup {<<"other-file-touched", o.path, o.state>> : o \in {p \in Range(e.others) : p.state # "old"}}
   \cup {<<"link-target-damaged", o.path, o.state>> : o \in {p \in Range(e.targets) : p.state \notin {"old", "new", "both"}}}
   \cup {<<"path-created", x.path>> :
            x \in {y \in Range(e.extra) : /\ y.path \notin excusedExtra
                                          /\ (e.outcome \in {"done", "failed"} \/ y.md)}}
   \cup {<<"syscall-on-foreign-path", s.op, s.path>> :
            s \in {t \in Range(e.muts) : t.cls \in {"other", "extra_md"} /\ t.path \notin excusedExtra}}

Init == l = 2 /\ nbad = 0 /\ nknown = 0

Step ==
    /\ l <= Len(Rec)
    /\ l' = l + 1
    /\ LET e == Rec[l] IN
       IF e.ev # "Snap" THEN UNCHANGED <<nbad, nknown>>
       ELSE LET ideal == Reasons(e, FALSE)
                withDev == Reasons(e, DevMdMd(e))
            IN  /\ IF ideal # {}
                   THEN PrintT(<<"VERDICT", ToJson([case |-> e.case, bad |-> withDev,
                                                    explained |-> IF withDev = {} THEN {"F-C19-2"} ELSE {},
                                                    ideal |-> ideal])>>)
                   ELSE TRUE
                /\ nbad' = IF withDev # {} THEN nbad + 1 ELSE nbad
                /\ nknown' = IF ideal # {} /\ withDev = {} THEN nknown + 1 ELSE nknown

Spec == Init /\ [][Step]_vars

Accepted ==
    IF TLCGet("stats").diameter = Len(Rec)
    THEN PrintT(<<"ACCEPTED", Len(Rec)>>)
    ELSE PrintT(<<"UNCONSUMED", TLCGet("stats").diameter, Len(Rec)>>) /\ FALSE
=============================================================================
