SPECIFICATION Spec
CONSTANTS
  Segs <- S2
  MaxDepth = 3
  MaxUp = 2
INVARIANTS DesignOK Emit
CHECK_DEADLOCK FALSE
