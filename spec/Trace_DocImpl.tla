--------------------------- MODULE Trace_DocImpl ---------------------------
(***************************************************************************)
(* Binds DocImpl!Predict to the code: for every recorded Format event      *)
(* whose input is a single container of headings and paragraphs, the       *)
(* heading levels the real formatter wrote are compared with the levels    *)
(* Predict gives.  A difference is printed as DRIFT (the model no longer   *)
(* describes the splitter); whether it is a violation of C07 is decided    *)
(* by Trace_Doc, which judges the same events against the property.        *)
(***************************************************************************)
EXTENDS DocImpl, Json, IOUtils, TLC

Rec == ndJsonDeserialize(IOEnv.TRACE)
VARIABLE l
Init == l = 1

Flat1(bs) == \A i \in 1..Len(bs) : bs[i].k \in {"H", "P"}
Levels(bs) == [i \in 1..Len(bs) |-> IF bs[i].k = "H" THEN bs[i].l ELSE 0]

Applicable(e) == e.ev = "Format" /\ e.res = "ok" /\ e.has_obs /\ Flat1(e.in.blocks) /\ Len(e.in.blocks) > 0 /\ Flat1(e.obs.blocks)

Step == /\ l <= Len(Rec) /\ l' = l + 1
        /\ LET e == Rec[l] IN
           IF Applicable(e)
           THEN LET cin == Levels(e.in.blocks)
                    obs == InLevels(Levels(e.obs.blocks))
                IN  IF obs # OutLevels(cin)
                    THEN PrintT(<<"DRIFT", ToJson([case |-> e.case, route |-> e.route, variant |-> e.variant, in |-> cin,
                                                   predicted |-> OutLevels(cin), observed |-> obs])>>)
                    ELSE PrintT(<<"MATCH", l>>)
           ELSE TRUE
Spec == Init /\ [][Step]_l
Accepted == IF TLCGet("stats").diameter - 1 = Len(Rec) THEN PrintT(<<"ACCEPTED", Len(Rec)>>)
            ELSE PrintT(<<"UNCONSUMED", TLCGet("stats").diameter, Len(Rec)>>) /\ FALSE
=============================================================================
