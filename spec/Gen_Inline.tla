----------------------------- MODULE Gen_Inline -----------------------------
(***************************************************************************)
(* Inline universe of the E-doc engine: every inline construct, and every  *)
(* pair of them, inside every inline-bearing kind of block.                *)
(* Words may contain characters that are special in Markdown ("*x*", "#h", *)
(* "1.", "<b>", "a|b", "[x]", a backslash ...): the renderer escapes them, *)
(* so their meaning is "this literal text".                                *)
(***************************************************************************)
EXTENDS Naturals, Sequences, TLC, Json

CONSTANT Pairs   \* TRUE: also all ordered pairs of catalogue entries

B(k, l, t, c, items, rows, x) == [k |-> k, l |-> l, t |-> t, c |-> c, items |-> items, rows |-> rows, x |-> x]
T(k, s, c, x) == [k |-> k, s |-> s, c |-> c, x |-> x]
W(s) == T("W", s, <<>>, "")
SP == T("SP", "", <<>>, "")
SB == T("SB", "", <<>>, "")
HB == T("HB", "", <<>>, "")
Code(s) == T("Code", s, <<>>, "")
Em(c) == T("Em", "", c, "")
St(c) == T("St", "", c, "")
Link(u, c, x) == T("Link", u, c, x)
Img(u, c) == T("Img", u, c, "")
Html(s) == T("Html", s, <<>>, "")

\* name |-> inline sequence; "plain" entries use only letters and digits
Plain == {
    <<"word", <<W("alpha")>>>>,
    <<"two", <<W("one"), SP, W("two")>>>>,
    <<"em", <<Em(<<W("emph")>>)>>>>,
    <<"strong", <<St(<<W("strong")>>)>>>>,
    <<"em2", <<W("a"), SP, Em(<<W("b"), SP, W("c")>>), SP, W("d")>>>>,
    <<"nested", <<St(<<W("s"), SP, Em(<<W("e")>>)>>)>>>>,
    <<"code", <<Code("code1")>>>>,
    <<"codesp", <<W("x"), SP, Code("a b"), SP, W("y")>>>>,
    <<"link", <<Link("note2", <<W("text")>>, "inline")>>>>,
    <<"linkmd", <<Link("note2.md", <<W("text")>>, "inline")>>>>,
    <<"linksame", <<Link("note2", <<W("note2")>>, "inline")>>>>,     \* the text repeats the key (an autolink only for urls)
    <<"linkcase", <<W("see"), SP, Link("todo", <<W("TODO")>>, "inline")>>>>,
    <<"linksub", <<Link("dir/note3", <<W("sub"), SP, W("text")>>, "inline")>>>>,
    <<"linkext", <<Link("https://example.com/a", <<W("site")>>, "ext")>>>>,
    <<"linkmail", <<Link("mailto:a@example.com", <<W("mail")>>, "ext")>>>>,
    <<"linkftp", <<Link("ftp://host/dir/x.md", <<W("file")>>, "ext")>>>>,
    <<"linkfile", <<Link("file:///tmp/a.md", <<W("local")>>, "ext")>>>>,
    <<"auto", <<Link("https://example.com/b", <<W("https://example.com/b")>>, "auto")>>>>,
    <<"wiki", <<Link("note4", <<W("note4")>>, "wiki")>>>>,
    <<"piped", <<Link("note5", <<W("shown")>>, "piped")>>>>,
    <<"img", <<Img("pic.png", <<W("alt")>>)>>>>,
    <<"emlink", <<Em(<<Link("note6", <<W("inem")>>, "inline")>>)>>>>,
    <<"html", <<W("a"), SP, Html("<b>"), W("bold"), Html("</b>"), SP, W("z")>>>>,
    <<"mid", <<W("pre"), SP, Link("note7", <<W("mid")>>, "inline"), SP, W("post")>>>>,
    <<"anchor", <<Link("note8#section", <<W("anch")>>, "inline")>>>>,
    <<"anchormid", <<W("see"), SP, Link("dir/note9#part", <<W("there")>>, "inline")>>>>,
    <<"anchorown", <<W("see"), SP, Link("#local", <<W("below")>>, "inline")>>>>,
    <<"query", <<W("see"), SP, Link("note10?x=1", <<W("q")>>, "inline")>>>>
}

Breaks == {
    <<"soft", <<W("l1"), SB, W("l2")>>>>,
    <<"hard", <<W("h1"), HB, W("h2")>>>>,
    <<"soft3", <<W("s1"), SB, W("s2"), SB, W("s3")>>>>,
    <<"softem", <<Em(<<W("e1"), SB, W("e2")>>)>>>>
}

Special == {
    <<"star", <<W("*lit*")>>>>,
    <<"under", <<W("_lit_")>>>>,
    <<"snake", <<W("snake_case_word")>>>>,
    <<"hash", <<W("#"), SP, W("nothead")>>>>,
    <<"num", <<W("1."), SP, W("notlist")>>>>,
    <<"dash", <<W("-"), SP, W("notitem")>>>>,
    <<"plus", <<W("+"), SP, W("notitem")>>>>,
    <<"pipesp", <<W("a"), SP, W("|"), SP, W("b")>>>>,
    <<"dunder", <<W("__init__")>>>>,
    <<"gt", <<W(">"), SP, W("notquote")>>>>,
    <<"tick", <<W("`lit`")>>>>,
    <<"angle", <<W("<b>lit</b>")>>>>,
    <<"amp", <<W("a&amp;b")>>>>,
    <<"ltent", <<W("&lt;")>>>>,
    <<"pipe", <<W("a|b")>>>>,
    <<"bracket", <<W("[lit]")>>>>,
    <<"linklike", <<W("[lit](url)")>>>>,
    <<"wikilike", <<W("[[lit]]")>>>>,
    <<"backslash", <<W("a\\b")>>>>,
    <<"dollar", <<W("$x$")>>>>,
    <<"tilde", <<W("~~x~~")>>>>,
    <<"codetick", <<Code("a`b")>>>>,
    <<"codepipe", <<Code("a|b")>>>>,
    <<"urlspace", <<Link("my note", <<W("spaced")>>, "inline")>>>>,
    <<"urlparen", <<Link("a(b)", <<W("paren")>>, "inline")>>>>,
    <<"eqline", <<W("t"), SB, W("===")>>>>,
    <<"dashline", <<W("t"), SB, W("---")>>>>,
    <<"unicode", <<W("naïve"), SP, W("日本語"), SP, W("😀")>>>>
}

Contexts == {"P", "H1", "H2", "item", "item2", "quote", "cell", "cellb", "ol"}

Wrap(ctx, t) ==
    CASE ctx = "P" -> <<B("P", 0, t, <<>>, <<>>, <<>>, "")>>
      [] ctx = "H1" -> <<B("H", 1, t, <<>>, <<>>, <<>>, "")>>
      [] ctx = "H2" -> <<B("H", 1, <<W("top")>>, <<>>, <<>>, <<>>, ""), B("H", 2, t, <<>>, <<>>, <<>>, "")>>
      [] ctx = "item" -> <<B("BL", 0, <<>>, <<>>, << <<B("P", 0, t, <<>>, <<>>, <<>>, "")>> >>, <<>>, "")>>
      [] ctx = "item2" -> <<B("BL", 0, <<>>, <<>>, << <<B("P", 0, <<W("first")>>, <<>>, <<>>, <<>>, ""),
                                                         B("P", 0, t, <<>>, <<>>, <<>>, "")>> >>, <<>>, "")>>
      [] ctx = "ol" -> <<B("OL", 0, <<>>, <<>>, << <<B("P", 0, <<W("one")>>, <<>>, <<>>, <<>>, "")>>,
                                                    <<B("P", 0, t, <<>>, <<>>, <<>>, "")>> >>, <<>>, "")>>
      [] ctx = "quote" -> <<B("Q", 0, <<>>, <<B("P", 0, t, <<>>, <<>>, <<>>, "")>>, <<>>, <<>>, "")>>
      \* a body cell (the header row sizes the delimiter row and may take another path through the writer)
      [] ctx = "cellb" -> <<B("Tbl", 0, <<>>, <<>>, <<>>, << << <<W("head")>>, <<W("h2")>> >>, << <<W("c1")>>, t >> >>, "")>>
      [] ctx = "cell" -> <<B("Tbl", 0, <<>>, <<>>, <<>>, << << <<W("head")>>, t >>, << <<W("c1")>>, <<W("c2")>> >> >>, "")>>

NoBreak(t) == \A i \in 1..Len(t) : t[i].k \notin {"SB", "HB"} /\ (t[i].k = "Em" => \A j \in 1..Len(t[i].c) : t[i].c[j].k # "SB")

All == Plain \cup Breaks \cup Special

VARIABLES doc, tag, done
vars == <<doc, tag, done>>

Init == doc = <<>> /\ tag = <<>> /\ done = FALSE

One(ctx, e) ==
    /\ ~done
    /\ (ctx \in {"cell", "cellb"} => NoBreak(e[2]))
    /\ doc' = Wrap(ctx, e[2]) /\ tag' = <<ctx, e[1]>> /\ done' = TRUE

Two(ctx, e, f) ==
    /\ ~done /\ Pairs
    /\ (ctx \in {"cell", "cellb"} => NoBreak(e[2]) /\ NoBreak(f[2]))
    /\ doc' = Wrap(ctx, e[2] \o <<SP>> \o f[2]) /\ tag' = <<ctx, e[1], f[1]>> /\ done' = TRUE

Next == \/ \E ctx \in Contexts, e \in All : One(ctx, e)
        \/ \E ctx \in Contexts, e \in Plain \cup Breaks, f \in Plain \cup Breaks : Two(ctx, e, f)
        \/ \E ctx \in {"P", "item"}, e \in Special, f \in Plain : Two(ctx, e, f) \/ Two(ctx, f, e)

Spec == Init /\ [][Next]_vars

Emit == done => PrintT(<<"VEC", ToJson([doc |-> [meta |-> "", blocks |-> doc], tag |-> tag])>>)
=============================================================================
