---------------------------- MODULE Gen_Requests ----------------------------
(***************************************************************************)
(* Request-sequence generator for C12 (spec -> implementation).            *)
(*                                                                         *)
(* The alphabet is every request method the server advertises (and one it  *)
(* does not) x the parameter classes that select a different path through  *)
(* the handlers: URIs inside / unknown to / outside the library, positions *)
(* on a link, on plain text, past the end of the line and of the file,     *)
(* code-action lines on every kind of block (incl. a dangling reference    *)
(* and a reference outside any section), code-action ids that are valid,   *)
(* stale, foreign, out of range or absent, and an edit notification that   *)
(* turns valid ids into stale ones.  TLC enumerates all sequences of       *)
(* length Len over it; the harness sends each to a fresh server, followed  *)
(* by a probe request whose correct answer is known.                       *)
(***************************************************************************)
EXTENDS Naturals, Sequences, TLC, Json

CONSTANT SeqLen

Uri == {"known", "unknown", "outside"}
Pos == {"link", "text", "pastcol", "pastline"}
Line == {"section", "para", "ref", "dangling", "subsection", "item", "pastend", "topref", "toppara"}
Kind == {"refactor.rewrite.list.type", "refactor.rewrite.list.section", "refactor.inline.reference.section",
         "refactor.inline.reference.quote", "refactor.rewrite.section.list", "refactor.extract.section",
         "refactor.extract.subsections", "custom.none"}
Data == {"section", "ref", "dangling", "item", "topref", "subsection", "huge", "none", "notanumber"}

R(m, u, a, x) == [m |-> m, u |-> u, a |-> a, x |-> x]

Alphabet ==
       {R("textDocument/formatting", u, "", "") : u \in Uri}
  \cup {R("textDocument/documentSymbol", u, "", "") : u \in Uri}
  \cup {R("textDocument/inlayHint", u, "", "") : u \in Uri}
  \cup {R("textDocument/references", u, "", "") : u \in Uri}
  \cup {R("textDocument/completion", u, "", "") : u \in {"known", "unknown"}}
  \cup {R("textDocument/definition", "known", p, "") : p \in Pos} \cup {R("textDocument/definition", "unknown", "link", "")}
  \cup {R("textDocument/prepareRename", "known", p, "") : p \in Pos} \cup {R("textDocument/prepareRename", "unknown", "link", "")}
  \cup {R("textDocument/rename", "known", p, n) : p \in {"link", "text", "pastline"}, n \in {"free", "taken", "sub/free"}}
  \cup {R("textDocument/rename", "unknown", "link", "free")}
  \cup {R("textDocument/codeAction", "known", l, "") : l \in Line} \cup {R("textDocument/codeAction", "unknown", "section", "")}
  \cup {R("codeAction/resolve", "", k, d) : k \in Kind, d \in Data}
  \cup {R("workspace/symbol", "", q, "") : q \in {"", "two", "zzzz"}}
  \cup {R("completionItem/resolve", "", "", ""), R("textDocument/inlineValues", "known", "", ""),
        R("workspace/executeCommand", "", "generate", "good"), R("workspace/executeCommand", "", "generate", "noargs"),
        R("workspace/executeCommand", "", "bogus", ""), R("textDocument/verifUnknown", "", "", ""),
        R("textDocument/formatting", "malformed-params", "", ""),
        R("shutdown", "", "", ""),
        R("notify/didChange", "known", "same", ""), R("notify/didChange", "known", "other", ""),
        R("notify/didChange", "unknown", "other", ""), R("notify/didSave", "known", "other", ""),
        R("notify/unknown", "", "", "")}

VARIABLE seq

Init == seq = <<>>
Next == Len(seq) < SeqLen /\ \E a \in Alphabet : seq' = Append(seq, a)
Spec == Init /\ [][Next]_seq

Emit == Len(seq) = SeqLen => PrintT(<<"SEQ", ToJson(seq)>>)

\* for samples / simulation over longer sequences
EmitAny == Len(seq) >= 1 => PrintT(<<"SEQ", ToJson(seq)>>)
=============================================================================
