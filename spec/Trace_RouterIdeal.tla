------------------------- MODULE Trace_RouterIdeal -------------------------
(***************************************************************************)
(* Implementation -> specification, ideal level (C11, C12).                *)
(*                                                                         *)
(* Reads the events recorded while schedules were replayed on the real     *)
(* router (one JSON object per line, schedules separated by "Reset") and   *)
(* evaluates the properties in their own words over what a client can      *)
(* observe: what was sent in which order, which responses arrived and what *)
(* they echo, what every note holds once the server is quiescent, whether  *)
(* the loop ended cleanly.  Nothing here depends on how the server is      *)
(* built (Arc, locks, queues): a differently shaped correct server passes. *)
(*                                                                         *)
(* Every event is consumed; a failed predicate adds a reason to `bad` for  *)
(* the current schedule, and the verdict of each schedule is printed when  *)
(* the next one starts.  TLC is the judge, the driver only counts lines.   *)
(***************************************************************************)
EXTENDS Integers, Sequences, FiniteSets, TLC, Json, IOUtils

Rec == ndJsonDeserialize(IOEnv.TRACE)

VARIABLES
    l,           \* next line of Rec
    case,        \* id of the schedule being judged
    lastSent,    \* note -> last version sent for it
    everSent,    \* note -> set of versions sent for it (0 = initial)
    sentBefore,  \* request -> version of its note last sent before the request
    reqKey,      \* request -> note
    reqCls,      \* request -> class
    resp,        \* request -> number of responses seen
    reqExpect,   \* request -> digest a fresh server answers this request with ("" = not known)
    bad,         \* reasons why the current schedule violates C11 / C12
    nbad         \* number of schedules with a non-empty verdict so far

vars == <<l, case, lastSent, everSent, sentBefore, reqKey, reqCls, resp, reqExpect, bad, nbad>>

Empty == [x \in {} |-> 0]

Get(f, x, d) == IF x \in DOMAIN f THEN f[x] ELSE d

Fresh ==
    /\ lastSent' = Empty
    /\ everSent' = Empty
    /\ sentBefore' = Empty
    /\ reqKey' = Empty
    /\ reqCls' = Empty
    /\ resp' = Empty
    /\ reqExpect' = Empty

Init ==
    /\ l = 1 /\ case = -1 /\ bad = {} /\ nbad = 0
    /\ lastSent = Empty /\ everSent = Empty /\ sentBefore = Empty
    /\ reqKey = Empty /\ reqCls = Empty /\ resp = Empty /\ reqExpect = Empty

Report == IF bad # {} THEN PrintT(<<"VERDICT", ToJson([case |-> case, bad |-> bad])>>) ELSE TRUE

Keep == UNCHANGED <<lastSent, everSent, sentBefore, reqKey, reqCls, resp, reqExpect>>

(***************************************************************************)
(* C11 in the property's words:                                            *)
(*   "once the server is idle, each note's state equals the last text sent *)
(*    for it"                                   -> Final                   *)
(*   "any request issued after a notification is answered from a state     *)
(*    that includes it"                         -> Resp, seen >= sentBefore*)
(*   "every didChange/didSave ... is applied"   -> no message dropped      *)
(* C12: "replies exactly once with a result or an error, and continues to  *)
(*   answer later requests correctly; shutdown/exit end the loop cleanly"  *)
(***************************************************************************)
Step ==
    /\ l <= Len(Rec)
    /\ l' = l + 1
    /\ LET e == Rec[l] IN
       CASE e.ev = "Reset" ->
              /\ Report
              /\ nbad' = IF bad # {} THEN nbad + 1 ELSE nbad
              /\ case' = e.case /\ bad' = {} /\ Fresh
         [] e.ev = "SendReq" ->
              /\ reqKey' = (e.r :> e.key) @@ reqKey
              /\ reqCls' = (e.r :> e.cls) @@ reqCls
              /\ sentBefore' = (e.r :> Get(lastSent, e.key, 0)) @@ sentBefore
              /\ resp' = (e.r :> 0) @@ resp
              /\ reqExpect' = (e.r :> (IF "expect" \in DOMAIN e THEN e.expect ELSE "")) @@ reqExpect
              /\ UNCHANGED <<lastSent, everSent, case, bad, nbad>>
         [] e.ev = "SendNot" ->
              /\ lastSent' = (e.key :> e.n) @@ lastSent
              /\ everSent' = (e.key :> (Get(everSent, e.key, {0}) \cup {e.n})) @@ everSent
              /\ UNCHANGED <<sentBefore, reqKey, reqCls, resp, reqExpect, case, bad, nbad>>
         [] e.ev = "Resp" ->
              /\ IF e.r \notin DOMAIN resp
                 THEN bad' = bad \cup {<<"response-to-nothing", e.r>>} /\ resp' = resp
                 ELSE /\ resp' = [resp EXCEPT ![e.r] = @ + 1]
                      /\ bad' = bad
                           \cup (IF resp[e.r] >= 1 THEN {<<"duplicate-response", e.r>>} ELSE {})
                           \cup (IF reqCls[e.r] = "ok" /\ e.err
                                 THEN {<<"error-for-valid-request", e.r>>} ELSE {})
                           \cup (IF reqCls[e.r] = "ok" /\ ~e.err /\ e.seen < sentBefore[e.r]
                                 THEN {<<"stale-read", e.r, e.seen, sentBefore[e.r]>>} ELSE {})
                           \cup (IF reqCls[e.r] = "ok" /\ ~e.err
                                    /\ e.seen \notin Get(everSent, reqKey[e.r], {0})
                                 THEN {<<"invented-text", e.r, e.seen>>} ELSE {})
                           \* "continues to answer later requests correctly": requests do not
                           \* change the library, so the answer is the one a fresh server gives
                           \cup (IF reqExpect[e.r] # "" /\ "digest" \in DOMAIN e /\ e.digest # reqExpect[e.r]
                                 THEN {<<"wrong-answer-after-earlier-requests", e.r>>} ELSE {})
              /\ UNCHANGED <<lastSent, everSent, sentBefore, reqKey, reqCls, reqExpect, case, nbad>>
         [] e.ev = "Quiescent" ->
              /\ bad' = bad \cup {<<"no-response", r>> : r \in {q \in DOMAIN resp : resp[q] = 0}}
              /\ Keep /\ UNCHANGED <<case, nbad>>
         [] e.ev = "Final" ->
              /\ bad' = bad \cup (IF e.ver # Get(lastSent, e.key, 0)
                                  THEN {<<"lost-notification", e.key, e.ver, Get(lastSent, e.key, 0)>>}
                                  ELSE {})
              /\ Keep /\ UNCHANGED <<case, nbad>>
         [] e.ev = "Exit" ->
              /\ bad' = bad \cup (IF ~e.ok THEN {<<"unclean-exit">>} ELSE {})
              /\ Keep /\ UNCHANGED <<case, nbad>>
         [] e.ev = "LoopPanic" ->
              /\ bad' = bad \cup {<<"message-dropped-by-loop">>}
              /\ Keep /\ UNCHANGED <<case, nbad>>
         [] e.ev = "Stuck" ->
              /\ bad' = bad \cup {<<"server-stuck", e.what>>}
              /\ Keep /\ UNCHANGED <<case, nbad>>
         [] e.ev = "End" ->
              /\ Report
              /\ nbad' = IF bad # {} THEN nbad + 1 ELSE nbad
              /\ bad' = {} /\ Keep /\ UNCHANGED case
         [] OTHER -> UNCHANGED <<case, lastSent, everSent, sentBefore, reqKey, reqCls, resp, reqExpect, bad, nbad>>

Spec == Init /\ [][Step]_vars

\* every line was consumed (the last line is "End")
Accepted ==
    IF TLCGet("stats").diameter - 1 = Len(Rec)
    THEN PrintT(<<"ACCEPTED", Len(Rec)>>)
    ELSE PrintT(<<"UNCONSUMED", TLCGet("stats").diameter, Len(Rec)>>) /\ FALSE
=============================================================================
