----------------------------- MODULE MC_DocGen -----------------------------
EXTENDS DocGen
FullLeaves == {"H1", "H2", "H3", "P", "P2", "Code", "CodeL", "CodeF", "Rule", "Tbl", "Html", "Ref"}
StructLeaves == {"H1", "H2", "P"}
HeadLeaves == {"H1", "H2", "H3", "H4", "H5", "H6", "P"}
AllConts == {"Q", "BL", "OL"}
NoConts == {}
ItemLeavesQ == {"P", "Tbl", "Code", "H2"}
ListQuoteQ == {"BL", "Q"}
ItemLeaves == {"P", "Tbl", "Code"}
EmptyItemLeaves == {"P", "Code", "EI"}
ListQuote == {"BL"}
EmptyQuoteLeaves == {"H1", "H2", "P", "EQ"}
QuoteLeaves == {"P", "Code"}
HtmlLeaves == {"P", "Html", "H1"}
HtmlOnly == {"Html", "Code"}
QuoteConts == {"BL", "Q"}
=============================================================================
