--------------------------- MODULE MC_Gen_Router ---------------------------
EXTENDS Gen_Router
MCKeys == {"a", "b"}
MCKeys1 == {"a"}
MCClasses == {"ok", "panic"}
MCClassesOk == {"ok"}
=============================================================================
