\* TEETH: TLC must reject this configuration (blocks after the leading list of an item inserted as first child)
\* every document of <= 5 nodes over paragraphs, headings, code, references, empty items, lists and quotes (depth <= 3)
SPECIFICATION SpecB
CONSTANTS
  Slip <- SlipFirstChild
  LeafKinds <- BLeaves
  ContKinds <- BConts
  MaxNodes = 5
  MaxDepth = 2
INVARIANT Built
CHECK_DEADLOCK FALSE
