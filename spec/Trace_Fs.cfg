SPECIFICATION TSpec
CONSTANTS
  Notes <- TNotes
  MdMd <- TMdMd
  Others <- TOthers
  MaxChunks = 3
  Protocol = "tmprename"
  KeyRule = "trimall"
INVARIANTS TypeOK Intact
POSTCONDITION Accepted
CHECK_DEADLOCK FALSE
