SPECIFICATION Spec
CONSTANTS MaxLead = 1  MaxPrefix = 1
INVARIANT PinnedDesignOK
CHECK_DEADLOCK FALSE
