SPECIFICATION GSpec
CONSTANTS
  Keys <- MCKeys1
  Classes <- MCClasses
  NReq = 2
  NNot = 2
  MaxQueued = 2
  Design = "wait"
  Catch = TRUE
INVARIANTS Emit GInv
CHECK_DEADLOCK FALSE
