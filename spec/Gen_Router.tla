----------------------------- MODULE Gen_Router -----------------------------
(***************************************************************************)
(* Schedule generator for the router engine (spec -> implementation).      *)
(*                                                                         *)
(* Explores Router with the repaired design and carries the history of     *)
(* steps; every complete behaviour (client done, exit taken, no worker     *)
(* left) is printed as one JSON line "SCHED".  The harness replays each    *)
(* schedule on the real Router through the pause hooks.                    *)
(*                                                                         *)
(* The loop thread of the real server is not gated: it takes a message as  *)
(* soon as the client sends it.  FIFO order makes "sent earlier, taken     *)
(* later" indistinguishable from "sent just before it is taken", so the    *)
(* generator lets the client send only when the loop can take the message  *)
(* at once, or, while the loop is waiting for exclusive access, lets up to *)
(* MaxQueued messages pile up behind it.                                   *)
(***************************************************************************)
EXTENDS Router, Json, TLCExt

CONSTANT MaxQueued

VARIABLE hist

gvars == <<vars, hist>>

LoopIdle == loop = <<"idle", 0>>

GInit == Init /\ hist = <<>>

CanSend == \/ LoopIdle /\ inbox = <<>>
           \/ loop[1] = "notif" /\ Len(inbox) < MaxQueued

GNext ==
    \/ /\ inbox # <<>> /\ LoopIdle              \* the loop takes at once
       /\ \/ \E r \in Req : LoopTakeReq(r) /\ hist' = Append(hist, <<"take">>)
          \/ \E n \in Not : LoopTakeNotif(n) /\ hist' = Append(hist, <<"take">>)
          \/ LoopTakeExit /\ hist' = Append(hist, <<"take">>)
    \/ /\ ~(inbox # <<>> /\ LoopIdle)
       /\ \/ /\ CanSend
             /\ \/ \E k \in Keys, c \in ReqClass :
                     ClientSendReq(k, c) /\ hist' = Append(hist, <<"req", ToString(nextReq), k, c>>)
                \/ \E k \in Keys :
                     ClientSendNot(k) /\ hist' = Append(hist, <<"not", ToString(nextNot), k>>)
                \/ /\ Quiescent /\ ClientSendExit /\ hist' = Append(hist, <<"exit">>)
          \/ \E n \in Not : LoopApply(n) /\ hist' = Append(hist, <<"apply", ToString(n)>>)
          \/ \E r \in Req : /\ (WCompute(r) \/ WPanic(r) \/ WRespond(r) \/ WRespondError(r) \/ WExit(r))
                            /\ hist' = Append(hist, <<"w", ToString(r)>>)

GSpec == GInit /\ [][GNext]_gvars

Done == loop = <<"exited", 0>>

\* printed once per complete behaviour
Emit == Done => PrintT(<<"SCHED", ToJson(hist)>>)

\* the design properties hold on every generated schedule as well
GInv == /\ NoLostNotification /\ QuiescentStateIsLastText /\ ReadYourWrites
        /\ AtMostOneResponse /\ ExactlyOneResponseWhenQuiescent
=============================================================================
