\* safety only, larger constants
SPECIFICATION Spec
CONSTANTS
  Keys <- MCKeys
  Classes <- MCClasses
  NReq = 3
  NNot = 3
  Design = "wait"
  Catch = TRUE
INVARIANTS TypeOK NoLostNotification QuiescentStateIsLastText ReadYourWrites
           AtMostOneResponse ExactlyOneResponseWhenQuiescent LoopSurvives
CHECK_DEADLOCK FALSE
