------------------------------ MODULE Trace_Doc ------------------------------
(***************************************************************************)
(* Judge of the E-doc engine (C01, C02, C03, C07).                         *)
(*                                                                         *)
(* Each line is one observation of the real formatter on one rendering of  *)
(* one TLC-generated abstract document: the abstract input `in`, the       *)
(* projection `obs` of what the formatter returned (or how it died), and   *)
(* whether formatting the returned text again reproduced it byte for byte. *)
(* TLC evaluates the relations of Doc.tla on every line and prints one     *)
(* VERDICT line per line that fails any of them.                           *)
(*                                                                         *)
(* Line 1 is {"ev":"Config","devs":[...]}: ids of open known findings whose *)
(* deviation (DocDeviations below) may explain a failure.                  *)
(***************************************************************************)
EXTENDS Doc, Integers, Json, IOUtils, DocDeviations

Rec == ndJsonDeserialize(IOEnv.TRACE)
Devs == {Rec[1].devs[i] : i \in 1..Len(Rec[1].devs)}

VARIABLES l
vars == <<l>>

Init == l = 2

\* reasons per property for event e, judged against input document d
Judge(e, d) ==
    LET fi == Flat(d)
        fo == IF e.has_obs THEN Flat(e.obs) ELSE <<>>
    IN  [C03 |-> IF e.res # "ok" THEN {<<"crash", e.res>>} ELSE {},
         C02 |-> IF e.res = "ok" /\ ~e.same2 THEN {<<"second-pass-differs">>} ELSE {},
         C01 |-> IF e.has_obs
                 THEN (IF ~AcceptC01F(fi, fo) THEN {<<"content", FirstDiff(ContentF(fi), ContentF(fo))>>} ELSE {})
                      \cup (IF e.obs.meta # d.meta THEN {<<"front-matter", d.meta, e.obs.meta>>} ELSE {})
                 ELSE {},
         C07 |-> IF e.has_obs
                 THEN (IF ShapeF(fo) # ShapeF(fi) THEN {<<"shape", FirstDiff(ShapeF(fi), ShapeF(fo))>>} ELSE {})
                      \cup (IF ~WellNestedF(fo) THEN {<<"output-not-well-nested">>} ELSE {})
                      \cup (IF ShapeF(fo) = ShapeF(fi) /\ WellNestedF(fi) /\ LevelsF(fo) # LevelsF(fi)
                            THEN {<<"levels-changed">>} ELSE {})
                 ELSE {}]

\* judged against the deviated expectation: content/outline relative to the deviated
\* document, crash/fixpoint excused only by deviations that predict them
JudgeDev(e, ex) ==
    LET j == Judge(e, ex.doc)
    IN  [C03 |-> IF ex.crash THEN {} ELSE j.C03,
         C02 |-> IF ex.nofix THEN {} ELSE j.C02,
         C01 |-> IF ex.crash \/ ex.content THEN {} ELSE j.C01,
         C07 |-> IF ex.crash \/ ex.content THEN {} ELSE j.C07]

NonEmpty(j) == j.C01 # {} \/ j.C02 # {} \/ j.C03 # {} \/ j.C07 # {}

Step ==
    /\ l <= Len(Rec)
    /\ l' = l + 1
    /\ LET e == Rec[l] IN
       IF e.ev # "Format" THEN TRUE
       ELSE LET ideal == Judge(e, e["in"])
            IN  IF NonEmpty(ideal)
                THEN \* second pass: is the failure fully explained by open known findings?
                     LET ex == Explain(e, Devs)      \* [ids, doc]: input as the deviating code sees it
                         withDev == IF ex.ids = {} THEN ideal ELSE JudgeDev(e, ex)
                     IN  PrintT(<<"VERDICT", ToJson([line |-> l, case |-> e.case, variant |-> e.variant, route |-> e.route,
                                                      ideal |-> ideal, bad |-> withDev, explained |-> ex.ids])>>)
                ELSE TRUE

Spec == Init /\ [][Step]_vars

Accepted ==
    IF TLCGet("stats").diameter = Len(Rec)
    THEN PrintT(<<"ACCEPTED", Len(Rec)>>)
    ELSE PrintT(<<"UNCONSUMED", TLCGet("stats").diameter, Len(Rec)>>) /\ FALSE
=============================================================================
