\* TEETH: TLC must reject this configuration (insert mode left on after the items of a list)
\* every document of <= 5 nodes over paragraphs, headings, code, references, empty items, lists and quotes (depth <= 3)
SPECIFICATION SpecB
CONSTANTS
  Slip <- SlipList
  LeafKinds <- BLeaves
  ContKinds <- BConts
  MaxNodes = 5
  MaxDepth = 2
INVARIANT Built
CHECK_DEADLOCK FALSE
