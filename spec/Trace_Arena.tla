---------------------------- MODULE Trace_Arena ----------------------------
(***************************************************************************)
(* Trace validation of the real arena against Arena.tla (C20).  Each       *)
(* recorded line is one call of the code with the arena as it was          *)
(* afterwards:                                                             *)
(*   reset                 a new Graph                                     *)
(*   update  k tree        Graph::update_key(key k, Markdown of tree)      *)
(*   patch                 new_patch + build_key_from_iter of every note   *)
(* and carries nodes = [kind, prev, next, child, key]*, keys = [k, root]*   *)
(* and, for update, index = [k, b, i]*: the node ids the reference index   *)
(* answers for note k (block references, links in text).                   *)
(* The spec action is taken, and the state it predicts is compared with    *)
(* the recorded one node by node; the forest invariants of Arena.tla are   *)
(* evaluated on the recorded arena itself, so that they are judged on what *)
(* the code built and not on what the model would have built.              *)
(***************************************************************************)
EXTENDS Arena, Json, IOUtils

Rec == ndJsonDeserialize(IOEnv.TRACE)
VARIABLE l
tvars == <<vars, l>>

ObsNodes(e) == [i \in 1..Len(e.nodes) |-> [kind |-> e.nodes[i].kind, prev |-> e.nodes[i].prev, next |-> e.nodes[i].next,
                                            child |-> e.nodes[i].child, key |-> e.nodes[i].key]]
ObsKeys(e) == [k \in {x.k : x \in Range(e.keys)} |-> (CHOOSE x \in Range(e.keys) : x.k = k).root]
KeyStr(k) == "n" \o ToString(k)

\* the model writes naturals for keys, the code strings; the recording has the structural fields
ModelNodes(ns) == [i \in 1..Len(ns) |-> [kind |-> ns[i].kind, prev |-> ns[i].prev, next |-> ns[i].next, child |-> ns[i].child,
                                           key |-> IF ns[i].kind = "D" THEN KeyStr(ns[i].key) ELSE ""]]

\* the answers of the reference index recorded with the call: for each asked note the node ids of
\* the block references and of the blocks whose text links to it
SetOf(s) == {s[i] : i \in 1..Len(s)}
IndexDiff(ix, ns, e) ==
    (IF e.index_panic THEN {<<"asking-the-index-panicked">>} ELSE {}) \cup
    UNION {(IF IndexRefsTo(ix, ns, "b", a.k) # SetOf(a.b) THEN {<<"block-references-to", a.k, IndexRefsTo(ix, ns, "b", a.k), SetOf(a.b)>>} ELSE {})
           \cup (IF IndexRefsTo(ix, ns, "i", a.k) # SetOf(a.i) THEN {<<"inline-references-to", a.k, IndexRefsTo(ix, ns, "i", a.k), SetOf(a.i)>>} ELSE {})
           : a \in Range(e.index)}

NodeDiff(exp, obs) ==
    (IF Len(exp) # Len(obs) THEN {<<"arena-length", Len(exp), Len(obs)>>} ELSE {})
    \cup {<<"node", i - 1, exp[i], obs[i]>> : i \in {j \in 1..Len(exp) : j <= Len(obs) /\ exp[j] # obs[j]}}

First(S) == IF S = {} THEN {} ELSE {CHOOSE x \in S : TRUE}

ForestReasons(ns, ks) ==
    LET roots == {ks[k] : k \in DOMAIN ks}
    IN  {<<"root", k>> : k \in {x \in DOMAIN ks : ~(ks[x] \in Live(ns) /\ N(ns, ks[x]).kind = "D" /\ N(ns, ks[x]).key = KeyStr(x))}}
        \cup {<<"placement", i>> : i \in {x \in Live(ns) \ roots : ~(Cardinality(RefsTo(ns, x)) = 1 /\ N(ns, x).prev \in RefsTo(ns, x))}}
        \cup {<<"dangling", i>> : i \in {x \in Live(ns) : \E s \in Succ(ns, x) : ~(s < Len(ns) /\ s \in Live(ns))}}
        \cup {<<"shared", p[1], p[2]>> : p \in {q \in (DOMAIN ks) \X (DOMAIN ks) : q[1] < q[2] /\ Reach(ns, ks[q[1]]) \cap Reach(ns, ks[q[2]]) # {}}}
        \cup {<<"orphans", Live(ns) \ UNION {Reach(ns, ks[k]) : k \in DOMAIN ks}>> : z \in First(Live(ns) \ UNION {Reach(ns, ks[k]) : k \in DOMAIN ks})}

Verdict(e, reasons) ==
    IF reasons = {} THEN TRUE
    ELSE PrintT(<<"VERDICT", ToJson([hist |-> e.hist, step |-> e.step, ev |-> e.ev, bad |-> reasons])>>)

TInit == Init /\ l = 1

IsEvent(name) == l <= Len(Rec) /\ Rec[l].ev = name /\ l' = l + 1

TReset == /\ IsEvent("reset")
          /\ nodes' = <<>> /\ keys' = [k \in {} |-> 0] /\ docs' = [k \in {} |-> 0] /\ ops' = 0 /\ patch' = <<>> /\ index' = {}

TUpdate == /\ IsEvent("update")
           /\ LET e == Rec[l] IN
              /\ Update(e.k, e.tree)
              /\ Verdict(e, {<<"model", d>> : d \in NodeDiff(ModelNodes(nodes'), ObsNodes(e))}
                            \cup {<<"index", d>> : d \in IndexDiff(index', nodes', e)}
                            \cup {<<"keys", keys', ObsKeys(e)>> : z \in First(IF keys' = ObsKeys(e) THEN {} ELSE {1})}
                            \cup {<<"forest", r>> : r \in ForestReasons(ObsNodes(e), ObsKeys(e))})

TPatch == /\ IsEvent("patch")
          /\ LET e == Rec[l] IN
             /\ MakePatch
             /\ Verdict(e, {<<"model", d>> : d \in NodeDiff(ModelNodes(patch'), ObsNodes(e))}
                           \cup {<<"forest", r>> : r \in ForestReasons(ObsNodes(e), ObsKeys(e))})

\* a patch graph built from a tree in which a whole note stands in the place of a block reference (what
\* 'Inline section' builds): no model arena to compare with, the forest invariants are evaluated on what was built
TInlined == /\ IsEvent("patch_inlined")
            /\ UNCHANGED <<nodes, keys, docs, ops, patch, index>>
            /\ LET e == Rec[l] IN
               Verdict(e, IF Len(e.nodes) = 1 /\ e.nodes[1].kind = "panic" THEN {<<"forest", <<"panic">>>>}
                          ELSE {<<"forest", r>> : r \in ForestReasons(ObsNodes(e), ObsKeys(e))})

TNext == TReset \/ TUpdate \/ TPatch \/ TInlined
TSpec == TInit /\ [][TNext]_tvars

Accepted == IF TLCGet("stats").diameter - 1 = Len(Rec) THEN PrintT(<<"ACCEPTED", Len(Rec)>>)
            ELSE PrintT(<<"UNCONSUMED", TLCGet("stats").diameter, Len(Rec)>>) /\ FALSE
=============================================================================
