------------------------------ MODULE Gen_Keys ------------------------------
(***************************************************************************)
(* C15 universe: every (note key, linking directory) pair and every        *)
(* (directory, url) pair over a small segment alphabet -- equal, nested    *)
(* either way, siblings, disjoint, any depth up to MaxDepth; urls with     *)
(* "..", "./" and ".md" forms.  The design obligations RoundTrip and       *)
(* StableRewrite of Keys.tla are checked on every pair as invariants       *)
(* (TLC alone), and every pair is printed for the conformance run.         *)
(***************************************************************************)
EXTENDS Keys, TLC, Json, FiniteSets

CONSTANTS Segs, MaxDepth, MaxUp

SeqsUpTo(n) == UNION {[1..m -> Segs] : m \in 0..n}
KeysU == SeqsUpTo(MaxDepth) \ {<<>>}
DirsU == SeqsUpTo(MaxDepth - 1)
UrlsU == {[up |-> u, segs |-> s, md |-> m, dot |-> d] : u \in 0..MaxUp, s \in SeqsUpTo(2) \ {<<>>}, m \in BOOLEAN, d \in BOOLEAN}
\* "." and ".." between names (sub/../2, sub/./2, a/b/../c, a/../../b)
MidSegs == UNION {{<<a, "..", b>>, <<a, ".", b>>, <<a, b, "..", a>>, <<a, "..", "..", b>>} : a \in Segs, b \in Segs}
UrlsMid == {[up |-> u, segs |-> s, md |-> m, dot |-> FALSE] : u \in 0..1, s \in MidSegs, m \in BOOLEAN}

VARIABLES kind, k, d, u
vars == <<kind, k, d, u>>

Init == kind = "none" /\ k = <<>> /\ d = <<>> /\ u = [up |-> 0, segs |-> <<>>, md |-> FALSE, dot |-> FALSE]

Next == /\ kind = "none"
        /\ \/ \E kk \in KeysU, dd \in DirsU : kind' = "write" /\ k' = kk /\ d' = dd /\ UNCHANGED u
           \/ \E dd \in DirsU, uu \in UrlsU : /\ ~(uu.dot /\ uu.up > 0)
                                              /\ kind' = "read" /\ d' = dd /\ u' = uu /\ UNCHANGED k
           \/ \E dd \in SeqsUpTo(2), uu \in UrlsMid : kind' = "read" /\ d' = dd /\ u' = uu /\ UNCHANGED k

Spec == Init /\ [][Next]_vars

\* design obligations on the ideal algebra
DesignOK == /\ (kind = "write" => RoundTrip(k, d))
            /\ (kind = "read" => StableRewrite(u, d))

Emit == kind # "none" => PrintT(<<"CASE", ToJson([kind |-> kind, k |-> k, d |-> d, u |-> u])>>)
=============================================================================
