----------------------------- MODULE MC_Router -----------------------------
EXTENDS Router
MCKeys == {"a", "b"}
MCClasses == {"ok", "panic"}
MCClassesAll == {"ok", "panic", "unknown", "exec", "shutdown"}
=============================================================================
