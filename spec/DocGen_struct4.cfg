\* <= 4 nodes, structural alphabet, depth <= 3
SPECIFICATION Spec
CONSTANTS
  LeafKinds <- StructLeaves
  ContKinds <- AllConts
  MaxNodes = 4
  MaxDepth = 3
INVARIANT Emit
CHECK_DEADLOCK FALSE
