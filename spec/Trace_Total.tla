---------------------------- MODULE Trace_Total ----------------------------
(***************************************************************************)
(* Judge for C03.  In the specification every operation on a note is       *)
(* total: loading it, receiving it in an edit notification, formatting,    *)
(* listing symbols and paths, hints, references, code actions (and their   *)
(* resolution) at every line, definition / prepare-rename / rename at      *)
(* every position all return a value.  Each line is one text with the list *)
(* of operations that did NOT return: a panic (caught, or answered with    *)
(* "request handler panicked"), an abort / stack overflow of the process,  *)
(* or no answer within the budget.  There is no action for those, so any   *)
(* non-empty list is a verdict.                                            *)
(***************************************************************************)
EXTENDS Integers, Sequences, TLC, Json, IOUtils

Rec == ndJsonDeserialize(IOEnv.TRACE)
VARIABLE l
Init == l = 1
Step == /\ l <= Len(Rec) /\ l' = l + 1
        /\ LET e == Rec[l] IN
           IF e.ev = "Total" /\ e.bad # <<>>
           THEN PrintT(<<"VERDICT", ToJson([i |-> e.i, bad |-> e.bad])>>)
           ELSE TRUE
Spec == Init /\ [][Step]_l
Accepted == IF TLCGet("stats").diameter - 1 = Len(Rec) THEN PrintT(<<"ACCEPTED", Len(Rec)>>)
            ELSE PrintT(<<"UNCONSUMED", TLCGet("stats").diameter, Len(Rec)>>) /\ FALSE
=============================================================================
