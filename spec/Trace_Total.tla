---------------------------- MODULE Trace_Total ----------------------------
(***************************************************************************)
(* Judge for C03.  In the specification every operation on a note is       *)
(* total: loading it, receiving it in an edit notification, formatting,    *)
(* listing symbols and paths, hints, references, code actions (and their   *)
(* resolution) at every line, definition / prepare-rename / rename at      *)
(* every position all return a value.  Each line is one text with the list *)
(* of operations that did NOT return: a panic (caught, or answered with    *)
(* "request handler panicked"), an abort / stack overflow of the process,  *)
(* or no answer within the budget.  There is no action for those, so any   *)
(* non-empty list is a verdict.                                            *)
(***************************************************************************)
EXTENDS Integers, Sequences, TLC, Json, IOUtils

Rec == ndJsonDeserialize(IOEnv.TRACE)
Devs == {Rec[1].devs[i] : i \in 1..Len(Rec[1].devs)}
VARIABLE l
Init == l = 2

(***************************************************************************)
(* F-C03-2 (open): sibling chains are walked recursively (builder, arena   *)
(* delete, index, projector, tree collect); a note with about ten thousand *)
(* sibling blocks overflows the stack and aborts the process.  Guard: the  *)
(* text was generated with at least 5000 sibling blocks, and the only      *)
(* failure is the abort of the process.                                    *)
(***************************************************************************)
Explained(e) == "F-C03-2" \in Devs /\ e.siblings >= 5000 /\ \A i \in 1..Len(e.bad) : e.bad[i] = <<"process", "abort">>

Step == /\ l <= Len(Rec) /\ l' = l + 1
        /\ LET e == Rec[l] IN
           IF e.ev = "Total" /\ e.bad # <<>>
           THEN PrintT(<<"VERDICT", ToJson([i |-> e.i, ideal |-> e.bad, bad |-> IF Explained(e) THEN <<>> ELSE e.bad,
                                            explained |-> IF Explained(e) THEN {"F-C03-2"} ELSE {}])>>)
           ELSE TRUE
Spec == Init /\ [][Step]_l
Accepted == IF TLCGet("stats").diameter = Len(Rec) THEN PrintT(<<"ACCEPTED", Len(Rec)>>)
            ELSE PrintT(<<"UNCONSUMED", TLCGet("stats").diameter, Len(Rec)>>) /\ FALSE
=============================================================================
