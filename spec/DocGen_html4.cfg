\* dropped raw HTML anywhere in lists and quotes (containers left with nothing to write), <= 5 nodes
SPECIFICATION Spec
CONSTANTS
  LeafKinds <- HtmlLeaves
  ContKinds <- QuoteConts
  MaxNodes = 5
  MaxDepth = 2
INVARIANT Emit
CHECK_DEADLOCK FALSE
