----------------------------- MODULE MC_Builder -----------------------------
(***************************************************************************)
(* Every small document (DocGen's right-spine generator, extended so that  *)
(* an item or a quote may also START with a list or a quote) through the   *)
(* transcribed builder of Builder.tla: the arena is well linked and its    *)
(* pre-order walk is the document with the documented rules applied.       *)
(* EmitB prints each document with the arena the model predicts; the       *)
(* harness builds the same document with the real code and Trace_Builder   *)
(* compares node by node.                                                  *)
(***************************************************************************)
EXTENDS DocGen, Builder

BLeaves == {"P", "H1", "H2", "Code", "Ref", "EI"}
BLeavesSmall == {"P", "H2", "Code", "EI"}
BLeavesAll == {"P", "H1", "H2", "Code", "Ref", "EI", "Rule", "Tbl", "EQ"}
BConts == {"BL", "Q"}
BContsOL == {"BL", "OL", "Q"}
BLists == {"BL"}
NoSlip == {}
SlipList == {"list-insert-left-on"}
SlipSection == {"section-insert-left-on"}
SlipFirstChild == {"leading-list-first-child"}
SlipEmptyLeading == {"empty-leading-list"}
SlipAppendFlat == {"append-flat"}

\* a new item of the d-th open container that starts with a container
NewItemCont(d, ck, kind) ==
    /\ n + 2 <= MaxNodes
    /\ SpineKind(doc, d) \in {"BL", "OL"}
    /\ SpineDepth(doc) + 1 <= MaxDepth + 1
    /\ (kind = "EI" => ck # "Q")
    /\ doc' = NewItemAt(doc, d, IF kind = "EI" THEN B(ck, 0, <<>>, <<>>, << <<>> >>, <<>>, "") ELSE Cont(ck, Leaf(kind, n + 2)))
    /\ n' = n + 2

\* a container whose first block is a container
OpenNested(d, ck, ck2, kind) ==
    /\ n + 3 <= MaxNodes
    /\ d + 2 <= MaxDepth + 1
    /\ (kind = "EI" => ck2 # "Q")
    /\ doc' = AddAt(doc, d, Cont(ck, IF kind = "EI" THEN B(ck2, 0, <<>>, <<>>, << <<>> >>, <<>>, "") ELSE Cont(ck2, Leaf(kind, n + 3))))
    /\ n' = n + 3

NextB == \/ Next
         \/ \E d \in 1..SpineDepth(doc), ck \in ContKinds, kind \in LeafKinds : NewItemCont(d, ck, kind)
         \/ \E d \in 0..SpineDepth(doc), ck \in ContKinds, ck2 \in ContKinds, kind \in LeafKinds : OpenNested(d, ck, ck2, kind)
SpecB == Init /\ [][NextB]_vars

Built == n >= 1 => BuiltAsDocumented(doc)

EmitB == n >= 1 => PrintT(<<"VEC", ToJson([doc |-> [meta |-> "", blocks |-> doc]])>>)
=============================================================================
