\* larger constants, sampled with -simulate
SPECIFICATION GSpec
CONSTANTS
  Keys <- MCKeys
  Classes <- MCClasses
  NReq = 4
  NNot = 3
  MaxQueued = 3
  Design = "wait"
  Catch = TRUE
INVARIANTS Emit GInv
CHECK_DEADLOCK FALSE
