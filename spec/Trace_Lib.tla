------------------------------ MODULE Trace_Lib ------------------------------
(***************************************************************************)
(* Judge of the E-lib engine.  One line per replayed history: the abstract *)
(* library after the last step (docs), what the incrementally edited real  *)
(* Database answers (incr), what a Database freshly built from the same    *)
(* texts answers (fresh), and the arena of the edited graph before and     *)
(* after the last step.  TLC evaluates                                     *)
(*   C04  incr = fresh, answer by answer                                   *)
(*   C05  backlinks = Lib!Backlinks(docs, k)                               *)
(*   C06  links of the formatted text = Lib!ExpectedLinks(docs, k)         *)
(*   C18  listed paths are sound and complete (Lib!SoundPath, Complete)    *)
(*   C20  the arena is a well-formed forest, navigation agrees with it,    *)
(*        and the last step left the other notes' nodes untouched          *)
(* and prints one VERDICT line per history that fails any of them, with    *)
(* the failures that open known findings explain taken out (`bad`).        *)
(***************************************************************************)
EXTENDS LibDeviations, Json, IOUtils

Rec == ndJsonDeserialize(IOEnv.TRACE)
Devs == {Rec[1].devs[i] : i \in 1..Len(Rec[1].devs)}

VARIABLES l
vars == <<l>>
Init == l = 2



(***************************************************************************)
(* C04                                                                     *)
(***************************************************************************)
NoteFields == {"title", "fmt", "backlinks", "n_block_refs", "n_inline_refs", "node_at"}

C04Reasons(e) ==
    UNION {{<<"differs-from-fresh", ks, f>> : f \in {g \in NoteFields : g \in DOMAIN e.incr.notes[ks] /\ g \in DOMAIN e.fresh.notes[ks]
                                                                      /\ e.incr.notes[ks][g] # e.fresh.notes[ks][g]}}
           : ks \in DOMAIN e.incr.notes}
    \cup (IF e.incr.paths # e.fresh.paths THEN {<<"differs-from-fresh", "*", "paths">>} ELSE {})
    \cup (IF e.incr.search_empty_set # e.fresh.search_empty_set THEN {<<"differs-from-fresh", "*", "search">>} ELSE {})

(***************************************************************************)
(* C18                                                                     *)
(***************************************************************************)
HeadingOf(docs, t) == IF \E h \in Headings(docs) : HText(docs, h) = t
                      THEN CHOOSE h \in Headings(docs) : HText(docs, h) = t ELSE <<<<"?">>, -1>>

C18Reasons(e, docs) ==
    LET paths == {[i \in 1..Len(p) |-> HeadingOf(docs, p[i])] : p \in Range(e.incr.paths)}
    IN  {<<"unsound-path", p>> : p \in {q \in paths : ~SoundPath(docs, q)}}
        \cup {<<"heading-without-path", h>> : h \in {g \in Headings(docs) : ~\E p \in paths : p # <<>> /\ p[Len(p)] = g}}
        \* the command line tool (`iwe paths`, `iwe contents`, run on the library written to disk) lists the same
        \* paths, and as contents exactly the notes whose top heading starts a listing
        \cup (IF "cli" \in DOMAIN e
              THEN (IF ~e.cli.ran THEN {<<"cli-listing-failed">>} ELSE {})
                   \cup (IF e.cli.ran /\ e.cli.paths # e.fresh.paths THEN {<<"cli-paths-differ", e.cli.paths, e.fresh.paths>>} ELSE {})
                   \cup (IF e.cli.ran /\ Range(e.cli.contents) # {p[1] : p \in {q \in Range(e.fresh.paths) : Len(q) = 1}}
                         THEN {<<"cli-contents-differ", e.cli.contents>>} ELSE {})
              ELSE {})

(***************************************************************************)
(* C20  on the arena (node ids are 0-based; nodes[id + 1])                 *)
(***************************************************************************)
N(a, id) == a.nodes[id + 1]
Live(a) == {i \in 0..(Len(a.nodes) - 1) : N(a, i).kind # "Empty"}
Succ(a, id) == {x \in {N(a, id).child, N(a, id).next} : x >= 0}

RECURSIVE ReachFrom(_, _, _)
ReachFrom(a, frontier, seen) ==
    IF frontier = {} THEN seen
    ELSE LET new == (UNION {Succ(a, i) : i \in frontier}) \ seen
         IN  ReachFrom(a, {i \in new : i < Len(a.nodes)}, seen \cup new)
Reach(a, root) == ReachFrom(a, {root}, {root})

\* the structural parent: follow prev until a node whose child is the one we came from
RECURSIVE ParentOf(_, _, _)
ParentOf(a, id, fuel) ==
    LET p == N(a, id).prev
    IN  IF p < 0 \/ fuel = 0 THEN -1
        ELSE IF N(a, p).child = id THEN p ELSE ParentOf(a, p, fuel - 1)

C20ArenaReasons(a) ==
    LET roots == {k.root : k \in Range(a.keys)}
        live == Live(a)
        reach == [k \in Range(a.keys) |-> IF k.root \in live THEN Reach(a, k.root) ELSE {}]
        allReach == UNION {reach[k] : k \in Range(a.keys)}
        refsTo(i) == {j \in live : N(a, j).child = i} \cup {j \in live : N(a, j).next = i}
    IN  {<<"root-not-a-live-document", k.key>> : k \in {x \in Range(a.keys) : x.root \notin live \/ N(a, x.root).key # x.key}}
        \cup {<<"dangling-or-dead-link", i>> : i \in {j \in live : \E s \in Succ(a, j) : s >= Len(a.nodes) \/ s \notin live}}
        \cup {<<"two-places", i>> : i \in {j \in live \ roots : Cardinality(refsTo(j)) # 1}}
        \cup {<<"prev-inconsistent", i>> : i \in {j \in live \ roots : N(a, j).prev < 0 \/ N(a, j).prev \notin refsTo(j)}}
        \cup {<<"shared-between-notes", pr[1].key, pr[2].key>> :
                 pr \in {q \in Range(a.keys) \X Range(a.keys) : q[1].key # q[2].key /\ reach[q[1]] \cap reach[q[2]] # {}}}
        \cup {<<"live-node-in-no-note", i>> : i \in live \ allReach}
        \cup {<<"tombstone-reachable", i>> : i \in allReach \ live}
        \cup {<<"to-document-wrong", i, N(a, i).nav_doc>> :
                 i \in {j \in live \cap allReach : \A k \in Range(a.keys) : j \in reach[k] => N(a, j).nav_doc # k.key}}
        \cup {<<"to-parent-wrong", i, N(a, i).nav_parent>> :
                 i \in {j \in (live \cap allReach) \ roots : N(a, j).nav_parent # ParentOf(a, j, Len(a.nodes))}}

\* action property: the last step (on e.last_key) left every other note's nodes as they were
\* and never reused an id
C20StepReasons(e) ==
    IF e.steps = 0 THEN {}
    ELSE LET a == e.arena
             b == e.arena_before
             others == {k \in Range(b.keys) : k.key # e.last_key}
             keep == UNION {IF k.root \in Live(b) THEN Reach(b, k.root) ELSE {} : k \in others}
         IN  (IF Len(a.nodes) < Len(b.nodes) THEN {<<"arena-shrank">>} ELSE {})
             \cup {<<"other-note-disturbed", i>> : i \in {j \in keep : j >= Len(a.nodes) \/ N(a, j) # N(b, j)}}
             \cup {<<"id-reused", i>> : i \in {j \in 0..(Len(b.nodes) - 1) : j < Len(a.nodes) /\ N(b, j).kind = "Empty" /\ N(a, j).kind # "Empty"}}
             \cup {<<"root-moved", k.key>> : k \in {x \in others : \A y \in Range(a.keys) : y.key = x.key => y.root # x.root}}

\* a history on which the server panicked has no answers to judge, but the graph it left
\* behind is still inspected; the panic itself contradicts C04 (a fresh server answers)
Judge(e) ==
    LET docs == DocsOf(e)
        c20 == C20ArenaReasons(e.arena) \cup C20StepReasons(e)
               \cup UNION {{<<"patch-graph", r>> : r \in C20ArenaReasons(e.patches[i])} : i \in 1..Len(e.patches)}
    IN  IF e.answered
        THEN [C04 |-> C04Reasons(e), C05 |-> C05ReasonsWith(e, docs, IdealTarget), C06 |-> C06ReasonsWith(e, docs, IdealTarget),
              C18 |-> C18Reasons(e, docs), C20 |-> c20, C03 |-> {}]
        ELSE [C04 |-> {<<"crash", e.res>>}, C05 |-> {}, C06 |-> {}, C18 |-> {}, C20 |-> c20, C03 |-> {<<"crash", e.res>>}]

Crash(e) == [C04 |-> {}, C05 |-> {}, C06 |-> {}, C18 |-> {}, C20 |-> {}, C03 |-> {<<"crash", e.res>>}]

NonEmpty(j) == \E p \in DOMAIN j : j[p] # {}

Step ==
    /\ l <= Len(Rec)
    /\ l' = l + 1
    /\ LET e == Rec[l] IN
       IF e.ev \notin {"Lib", "LibCrash"} THEN TRUE
       ELSE LET ideal == IF e.ev = "Lib" THEN Judge(e) ELSE Crash(e)
            IN  IF NonEmpty(ideal)
                THEN LET ex == ExplainLib(e, ideal, Devs)     \* [bad, ids]
                     IN  PrintT(<<"VERDICT", ToJson([case |-> e.case, ideal |-> ideal, bad |-> ex.bad, explained |-> ex.ids])>>)
                ELSE TRUE

Spec == Init /\ [][Step]_vars

Accepted ==
    IF TLCGet("stats").diameter = Len(Rec)
    THEN PrintT(<<"ACCEPTED", Len(Rec)>>)
    ELSE PrintT(<<"UNCONSUMED", TLCGet("stats").diameter, Len(Rec)>>) /\ FALSE
=============================================================================
