SPECIFICATION Spec
CONSTANTS
  Keys = {1, 2, 3}
  Catalogue <- CatFull
  MaxOps = 4
  DeleteStopsAt = {}
  ReuseIds = FALSE
INVARIANTS ForestInv PatchInv WalkIsLastVersion
PROPERTIES OthersUntouched IdsMonotone
CHECK_DEADLOCK FALSE
