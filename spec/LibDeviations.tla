--------------------------- MODULE LibDeviations ---------------------------
(***************************************************************************)
(* Named deviations of the real library from Lib.tla, one per OPEN known   *)
(* finding.  Each states what the code does instead of the ideal, as an    *)
(* alternative operator of the same shape; ExplainLib re-judges the        *)
(* observation against the deviated expectation and removes a property's   *)
(* reasons only if the observation matches it exactly.  Whatever is left   *)
(* is a violation.                                                         *)
(***************************************************************************)
EXTENDS Lib, Integers


DocsOf(e) == [k \in {d.key : d \in Range(e.docs)} |-> (CHOOSE d \in Range(e.docs) : d.key = k).note]
KeyStr(e, k) == (CHOOSE d \in Range(e.docs) : d.key = k).keystr

(***************************************************************************)
(* C05 / C06 relations, parametric in the resolution of link targets       *)
(***************************************************************************)
ObservedBacklinks(e, ks) == {<<b[1], b[2]>> : b \in Range(e.incr.notes[ks].backlinks)}

C05ReasonsWith(e, docs, T(_, _, _)) ==
    UNION {LET obs == ObservedBacklinks(e, KeyStr(e, k))
               exp == BacklinksWith(docs, k, T)
           IN  {<<"missing-backlink", k, p>> : p \in exp \ obs} \cup {<<"spurious-backlink", k, p>> : p \in obs \ exp}
           : k \in DOMAIN docs}
    \* find-references of the language server lists exactly the references of the graph (recorded for every 8th history)
    \cup (IF "lsp_references_differ" \in DOMAIN e /\ e.lsp_references_differ # <<>>
          THEN {<<"server-references-differ-from-graph", e.lsp_references_differ>>} ELSE {})

LinkOK(docs, k, o, x) ==
    /\ o.kind = x.kind
    /\ o.ext = x.ext
    /\ IF x.ext THEN o.url.segs = x.target ELSE Resolve(Dir(k), o.url) = x.target
    /\ o.text = x.text

C06ReasonsWith(e, docs, T(_, _, _)) ==
    UNION {LET obs == e.incr.notes[KeyStr(e, k)].links
               exp == ExpectedLinksWith(docs, k, T)
           IN  IF Len(obs) # Len(exp) THEN {<<"link-count", k, Len(obs), Len(exp)>>}
               ELSE {<<"link", k, i, obs[i], exp[i]>> : i \in {j \in 1..Len(exp) : ~LinkOK(docs, k, obs[j], exp[j])}}
           : k \in DOMAIN docs}

(***************************************************************************)
(* F-C05-1  inline links (every link that is not a block reference) are    *)
(* resolved as written, relative to the library root: the linking note's   *)
(* directory is ignored and "./", "../" are not understood                 *)
(* (GraphInline::ref_key / normalize use Key::from_file_name(url)).        *)
(***************************************************************************)
RootRelativeInline(src, b, l) ==
    IF l.ext THEN NoKey
    ELSE IF b.k = "Ref" THEN Resolve(Dir(src), l.url)
    ELSE IF l.url.up = 0 /\ ~l.url.dot THEN l.url.segs ELSE NoKey

(***************************************************************************)
(* F-C18-1  notes that include each other.  A path is only listed if it    *)
(* starts at a note nobody includes by block reference, and the walk up    *)
(* through including notes stops at a cycle: the headings of a note that   *)
(* cannot be reached from such a root note through block references        *)
(* (notes on a reference cycle, or only included from one) end no path.    *)
(* (Pinned by the crate's own unit tests path::test::infinite_recursion.)  *)
(***************************************************************************)
RefTargets(docs, m) ==
    {Resolve(Dir(m), docs[m].blocks[bi].links[1].url) :
        bi \in {i \in 1..Len(docs[m].blocks) : docs[m].blocks[i].k = "Ref" /\ ~docs[m].blocks[i].links[1].ext}}

RootNotes(docs) == {n \in DOMAIN docs : \A m \in DOMAIN docs : n \notin RefTargets(docs, m)}

RECURSIVE Closure(_, _)
Closure(docs, s) ==
    LET next == s \cup ((UNION {RefTargets(docs, m) : m \in s}) \cap DOMAIN docs)
    IN  IF next = s THEN s ELSE Closure(docs, next)

Rooted(docs) == Closure(docs, RootNotes(docs))

ExplainLib(e, ideal, devs) ==
    IF e.ev # "Lib" \/ ~e.answered THEN [bad |-> ideal, ids |-> {}]
    ELSE
    LET docs == DocsOf(e)
        d1 == "F-C05-1" \in devs
        c05 == IF d1 /\ ideal.C05 # {} THEN C05ReasonsWith(e, docs, RootRelativeInline) ELSE ideal.C05
        c06 == IF d1 /\ ideal.C06 # {} THEN C06ReasonsWith(e, docs, RootRelativeInline) ELSE ideal.C06
        d2 == "F-C18-1" \in devs
        c18 == IF d2 THEN {r \in ideal.C18 : ~(r[1] = "heading-without-path" /\ r[2][1] \notin Rooted(docs))} ELSE ideal.C18
    IN  [bad |-> [ideal EXCEPT !.C05 = c05, !.C06 = c06, !.C18 = c18],
         ids |-> (IF (c05 # ideal.C05 /\ c05 = {}) \/ (c06 # ideal.C06 /\ c06 = {}) THEN {"F-C05-1"} ELSE {})
                 \cup (IF c18 # ideal.C18 THEN {"F-C18-1"} ELSE {})]
=============================================================================
