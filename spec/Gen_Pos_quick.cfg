SPECIFICATION Spec
CONSTANTS MaxLead = 2  MaxPrefix = 1
INVARIANT Emit
CHECK_DEADLOCK FALSE
