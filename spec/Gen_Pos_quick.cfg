SPECIFICATION Spec
CONSTANTS MaxLead = 2  MaxPrefix = 2
INVARIANT Emit
CHECK_DEADLOCK FALSE
