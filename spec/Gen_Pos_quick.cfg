SPECIFICATION Spec
CONSTANTS MaxLead = 1  MaxPrefix = 2
INVARIANT Emit
CHECK_DEADLOCK FALSE
