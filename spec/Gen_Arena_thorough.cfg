SPECIFICATION GSpec
CONSTANTS
  GKeys = {1, 2, 3}
  MaxOps = 3
  NTrees = 11
INVARIANT Emit
CHECK_DEADLOCK FALSE
