SPECIFICATION GSpec
CONSTANTS
  GKeys = {1, 2, 3}
  MaxOps = 4
  NTrees = 7
INVARIANT Emit
CHECK_DEADLOCK FALSE
