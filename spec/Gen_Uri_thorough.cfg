SPECIFICATION Spec
CONSTANTS
  MaxLen = 3
  NameClasses <- AllClasses
INVARIANTS DesignOK Emit
CHECK_DEADLOCK FALSE
