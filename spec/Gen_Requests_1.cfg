SPECIFICATION Spec
CONSTANT SeqLen = 1
INVARIANT Emit
CHECK_DEADLOCK FALSE
