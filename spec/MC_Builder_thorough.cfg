\* every document of <= 7 nodes over paragraphs, headings, code, references, empty items, lists and quotes (depth <= 4)
SPECIFICATION SpecB
CONSTANTS
  Slip <- NoSlip
  LeafKinds <- BLeaves
  ContKinds <- BConts
  MaxNodes = 7
  MaxDepth = 3
INVARIANT Built
CHECK_DEADLOCK FALSE
