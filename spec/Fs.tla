--------------------------------- MODULE Fs ---------------------------------
(***************************************************************************)
(* `iwe normalize` on a directory tree (crates/iwe/src/main.rs:166-194,    *)
(* crates/liwe/src/fs.rs), at the granularity of the system calls that can *)
(* fail or between which the process can die.                              *)
(*                                                                         *)
(*   load_graph      read every *.md under the library (recursive)         *)
(*   export          compute the new text of every note in memory          *)
(*   write_store     for every (key, text), in hash-map order: write_file  *)
(*                                                                         *)
(* Two write protocols are modelled, selected by Protocol:                 *)
(*   "truncate"   fs::write = open(O_TRUNC) ; write* ; close   (the code   *)
(*                at the pinned commit)                                    *)
(*   "tmprename"  open(tmp) ; write* ; close ; rename(tmp, target), the    *)
(*                temp file being removed when a step fails (the repaired  *)
(*                code)                                                    *)
(* and two key rules for files named x.md.md, selected by KeyRule:         *)
(*   "one"        the key keeps the inner ".md"; the note is written back  *)
(*                to the path it was read from                             *)
(*   "trimall"    every trailing ".md" is trimmed (to_file_name and        *)
(*                Key::from_file_name use trim_end_matches): the note read *)
(*                from x.md.md has key x and is written to x.md            *)
(*                                                                         *)
(* A file's content is abstract: "absent", "old", "new" (the complete text *)
(* the in-memory export defines), "empty" (truncated), "partial".          *)
(***************************************************************************)
EXTENDS Naturals, Sequences, FiniteSets, TLC

CONSTANTS
    Notes,       \* paths of note files (strings ending in ".md")
    MdMd,        \* subset of Notes named *.md.md
    Others,      \* paths of files that are not notes
    MaxChunks,   \* a write of one file takes 1..MaxChunks write() calls
    Protocol,    \* "truncate" | "tmprename"
    KeyRule      \* "one" | "trimall"

\* every path is a pair <<role, name>> so that TLC can compare them
P(f)   == <<"file", f>>         \* a file that exists before the run
Tmp(f) == <<"tmp", f>>          \* the sibling temp file used for f
Alt(f) == <<"alt", f>>          \* x.md for a note read from x.md.md

\* where the note read from f is written
Target(f) == IF f \in MdMd /\ KeyRule = "trimall" THEN Alt(f) ELSE P(f)

Paths == {P(f) : f \in Notes \cup Others} \cup {Tmp(f) : f \in Notes} \cup {Alt(f) : f \in MdMd}

VARIABLES
    disk,        \* path -> content
    pc,          \* "read" | "write" | "done" | "failed" | "killed"
    todo,        \* notes still to be written
    cur,         \* <<f, step, chunksLeft>> of the write in progress, or <<>>
    wrote        \* notes whose write protocol completed

vars == <<disk, pc, todo, cur, wrote>>

Init ==
    /\ disk = [p \in Paths |-> IF p[1] = "file" THEN "old" ELSE "absent"]
    /\ pc = "read"
    /\ todo = {}
    /\ cur = <<>>
    /\ wrote = {}

\* load_graph + export: pure reads, nothing on disk changes
ReadAll ==
    /\ pc = "read"
    /\ pc' = "write"
    /\ todo' = Notes
    /\ UNCHANGED <<disk, cur, wrote>>

\* the file the current step operates on
WFile(f) == IF Protocol = "tmprename" THEN Tmp(f) ELSE Target(f)

\* open(O_WRONLY|O_CREAT|O_TRUNC) of the next note, in hash-map order (any order);
\* n is the number of write() calls its text will take
Open(f, n) ==
    /\ pc = "write" /\ cur = <<>> /\ f \in todo /\ n \in 1..MaxChunks
    /\ todo' = todo \ {f}
    /\ disk' = [disk EXCEPT ![WFile(f)] = "empty"]
    /\ cur' = <<f, "write", n>>
    /\ UNCHANGED <<pc, wrote>>

\* open() itself fails (EACCES, ENOSPC on create, EDQUOT): nothing was touched
OpenFails(f) ==
    /\ pc = "write" /\ cur = <<>> /\ f \in todo
    /\ pc' = "failed"
    /\ UNCHANGED <<disk, todo, cur, wrote>>

\* one write() call; the last one completes the text
WriteChunk ==
    /\ pc = "write" /\ cur # <<>> /\ cur[2] = "write"
    /\ disk' = [disk EXCEPT ![WFile(cur[1])] = IF cur[3] = 1 THEN "new" ELSE "partial"]
    /\ cur' = IF cur[3] = 1 THEN <<cur[1], "close", 0>> ELSE <<cur[1], "write", cur[3] - 1>>
    /\ UNCHANGED <<pc, todo, wrote>>

Close ==
    /\ pc = "write" /\ cur # <<>> /\ cur[2] = "close"
    /\ IF Protocol = "tmprename"
       THEN cur' = <<cur[1], "rename", 0>> /\ UNCHANGED wrote
       ELSE cur' = <<>> /\ wrote' = wrote \cup {cur[1]}
    /\ UNCHANGED <<disk, pc, todo>>

\* rename(tmp, target): atomic replacement
Rename ==
    /\ pc = "write" /\ cur # <<>> /\ cur[2] = "rename"
    /\ disk' = [disk EXCEPT ![Target(cur[1])] = disk[Tmp(cur[1])], ![Tmp(cur[1])] = "absent"]
    /\ cur' = <<>>
    /\ wrote' = wrote \cup {cur[1]}
    /\ UNCHANGED <<pc, todo>>

Finish ==
    /\ pc = "write" /\ cur = <<>> /\ todo = {}
    /\ pc' = "done"
    /\ UNCHANGED <<disk, todo, cur, wrote>>

\* the system call of the current step fails (ENOSPC, EDQUOT, EIO, EFBIG ...):
\* write_file returns the error, write_store_at_path stops, the process exits.
\* A failing write() may already have written part of its data.
\* (close() errors are not observed by the code: the File is dropped; see Trace_Fs)
Fail ==
    /\ pc = "write" /\ cur # <<>> /\ cur[2] # "close"
    /\ pc' = "failed"
    /\ cur' = <<>>
    /\ IF Protocol = "tmprename"
       THEN disk' = [disk EXCEPT ![Tmp(cur[1])] = "absent"]      \* remove_file(tmp) on the error path
       ELSE \/ UNCHANGED disk
            \/ cur[2] = "write" /\ disk' = [disk EXCEPT ![WFile(cur[1])] = "partial"]
    /\ UNCHANGED <<todo, wrote>>

\* SIGKILL / power button at any moment
Kill ==
    /\ pc \in {"read", "write"}
    /\ pc' = "killed"
    /\ UNCHANGED <<disk, todo, cur, wrote>>

Next == \/ ReadAll \/ (\E f \in Notes, n \in 1..MaxChunks : Open(f, n)) \/ (\E f \in Notes : OpenFails(f))
        \/ WriteChunk \/ Close \/ Rename \/ Finish \/ Fail \/ Kill

Spec == Init /\ [][Next]_vars

(***************************************************************************)
(* C19                                                                     *)
(***************************************************************************)
\* every note file holds its complete old or its complete new text -- at every
\* moment, because the process may die at every moment
Intact == \A f \in Notes : disk[P(f)] \in {"old", "new"}

\* on completion every note has been rewritten at the path it was read from
InPlace == pc = "done" => \A f \in Notes : disk[P(f)] = "new"

\* nothing else is created, deleted or touched: other files keep their content
\* always; when the process ends by itself (done or failed) no path exists that
\* did not exist before; after a kill only a leftover temp file may remain
NothingElseTouched ==
    /\ \A o \in Others : disk[P(o)] = "old"
    /\ \A f \in MdMd : disk[Alt(f)] = "absent"
    /\ pc \in {"done", "failed"} => \A f \in Notes : disk[Tmp(f)] = "absent"

\* a failed run has written a prefix of the notes and left the others alone
FailedRunIsPartial == pc = "failed" /\ KeyRule = "one" => \A f \in Notes : disk[P(f)] = (IF f \in wrote THEN "new" ELSE "old")

TypeOK == /\ pc \in {"read", "write", "done", "failed", "killed"}
          /\ \A p \in Paths : disk[p] \in {"absent", "old", "new", "empty", "partial"}
=============================================================================
