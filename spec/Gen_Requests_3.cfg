SPECIFICATION Spec
CONSTANT SeqLen = 3
INVARIANT Emit
CHECK_DEADLOCK FALSE
