--------------------------- MODULE Trace_Refactor ---------------------------
(***************************************************************************)
(* Judge of the refactoring engine (C09, C10).  One line per code action   *)
(* the real server offered at some line of some note of a TLC-generated    *)
(* library and resolved: the views (Refactor.tla) of every note the edit   *)
(* changed, before and after, the keys it created and deleted, and the     *)
(* outcome of applying the inverse action to the edited library.           *)
(***************************************************************************)
EXTENDS Refactor, Integers, Json, IOUtils

Rec == ndJsonDeserialize(IOEnv.TRACE)
Devs == {Rec[1].devs[i] : i \in 1..Len(Rec[1].devs)}
VARIABLE l
Init == l = 2

Kind(e) == e.kind
Src(e) == e.key   \* key string of the note the action was requested in

Created(e) == Range(e.created)
Deleted(e) == Range(e.deleted)
Before(e) == e.before
After(e) == e.after
KeysBefore(e) == Range(e.keys_before)

SrcKey(e) == CHOOSE k \in KeysBefore(e) : TRUE   \* placeholder, replaced below

SrcViewB(e) == CHOOSE v \in Range(Before(e)) : v.key \notin Deleted(e) /\ \E w \in Range(After(e)) : w.key = v.key
SrcViewA(e) == ViewOf(After(e), SrcViewB(e).key)

TargetBag(views) == SeqBag(AllTargets(views))

ExtractReasons(e) ==
    LET sb == SrcViewB(e)
        sa == SrcViewA(e)
        new == {v \in Range(After(e)) : v.key \in Created(e)}
    IN  (IF Created(e) = {} THEN {<<"no-note-created">>} ELSE {})
        \cup {<<"created-key-not-fresh", k>> : k \in Created(e) \cap KeysBefore(e)}
        \cup (IF Deleted(e) # {} THEN {<<"deleted", Deleted(e)>>} ELSE {})
        \cup (IF ~Conserved(Before(e), After(e)) THEN {<<"content-not-conserved">>} ELSE {})
        \* exactly one reference per extracted section, and every other link still resolves to the same note
        \cup (IF TargetBag(After(e)) # TargetBag(Before(e)) (+) SeqBag(SetToSeq(Created(e)))
              THEN {<<"links-changed", TargetBag(Before(e)), TargetBag(After(e))>>} ELSE {})
        \* each new note holds one contiguous part of the source, headed by a top-level heading,
        \* and the reference left behind is titled with that heading
        \cup UNION {(IF v.shape = <<>> \/ v.shape[1].k # "H" \/ v.shape[1].l # 1 THEN {<<"new-note-does-not-start-with-h1", v.key>>} ELSE {})
                    \cup (IF ~\E i \in 0..(Len(sb.words) - Len(v.words)) : SubSeq(sb.words, i + 1, i + Len(v.words)) = v.words
                          THEN {<<"new-note-is-not-a-part-of-the-source", v.key>>} ELSE {})
                    \cup (IF ~\E j \in 1..Len(sa.links) : sa.links[j].target = v.key /\ v.shape # <<>> /\ sa.links[j].text_first = v.shape[1].first
                          THEN {<<"reference-not-titled-with-heading", v.key>>} ELSE {})
                    : v \in new}
        \* the source keeps everything else, in order
        \cup (IF Cardinality(new) = 1 /\ ~IsRemovalOf(sb.words, sa.words, (CHOOSE v \in new : TRUE).words)
              THEN {<<"rest-of-source-changed">>} ELSE {})

InlineReasons(e) ==
    LET sb == SrcViewB(e)
        sa == SrcViewA(e)
        gone == {v \in Range(Before(e)) : v.key \in Deleted(e)}
    IN  (IF Cardinality(Deleted(e)) # 1 THEN {<<"inlined-note-not-deleted", Deleted(e)>>} ELSE {})
        \cup (IF Created(e) # {} THEN {<<"created", Created(e)>>} ELSE {})
        \cup (IF ~Conserved(Before(e), After(e)) THEN {<<"content-not-conserved">>} ELSE {})
        \* the reference is gone (one link to the inlined note fewer), all other links resolve as before
        \cup (IF Cardinality(Deleted(e)) = 1 /\ TargetBag(After(e)) (+) SeqBag(SetToSeq(Deleted(e))) # TargetBag(Before(e))
              THEN {<<"links-changed", TargetBag(Before(e)), TargetBag(After(e))>>} ELSE {})
        \* the holding note = its old text with the inlined note's content inserted as one block
        \cup (IF Cardinality(gone) = 1 /\ ~IsRemovalOf(sa.words, sb.words, (CHOOSE v \in gone : TRUE).words)
              THEN {<<"inlined-content-not-inserted-as-one-block">>} ELSE {})

ConvertReasons(e) ==
    LET sb == SrcViewB(e)
        sa == SrcViewA(e)
    IN  (IF Created(e) # {} \/ Deleted(e) # {} \/ Len(Before(e)) # 1 \/ Len(After(e)) # 1 THEN {<<"touches-other-notes">>} ELSE {})
        \cup (IF ~SameTextInOrder(sb, sa) THEN {<<"text-or-order-changed">>} ELSE {})
        \cup (IF Kind(e) = "refactor.rewrite.list.type" /\ ~OnlyListKindsDiffer(sb, sa) THEN {<<"more-than-list-kind-changed">>} ELSE {})

\* "everything else unchanged": a note that is still there keeps its front matter, a created note has none
MetaReasons(e) ==
    {<<"front-matter-changed", v.key>> : v \in {b \in Range(Before(e)) : b.key \notin Deleted(e)
                                                   /\ \E a \in Range(After(e)) : a.key = b.key /\ a.meta # b.meta}}
    \cup {<<"front-matter-invented", v.key>> : v \in {a \in Range(After(e)) : a.key \in Created(e) /\ a.meta # ""}}

\* the note the action was requested in is among the notes the edit rewrote
HasSrc(e) == \E v \in Range(Before(e)) : v.key \notin Deleted(e) /\ \E w \in Range(After(e)) : w.key = v.key

Reasons(e) ==
    IF e.res # "ok" THEN {<<"offered-action-failed", e.res>>}
    ELSE IF Before(e) = <<>> /\ After(e) = <<>> THEN {<<"empty-edit">>}
    ELSE IF ~HasSrc(e) THEN {<<"source-note-not-rewritten", Created(e), Deleted(e)>>}
    ELSE (CASE Kind(e) \in {"refactor.extract.section", "refactor.extract.subsections"} -> ExtractReasons(e)
            [] Kind(e) \in {"refactor.inline.reference.section", "refactor.inline.reference.quote"} -> InlineReasons(e)
            [] Kind(e) \in {"refactor.rewrite.list.type", "refactor.rewrite.list.section", "refactor.rewrite.section.list"} -> ConvertReasons(e)
            [] OTHER -> {})
         \cup MetaReasons(e)
         \* "changing a list's type twice restores the note"; "turning a section that is not adjacent to
         \* another list into a list and back restores the formatted original"; "extracting the first
         \* sub-section and inlining it again restores the formatted original"
         \cup (IF e.rt.applicable /\ ~e.rt.restored /\ ~(Kind(e) = "refactor.rewrite.section.list" /\ e.ctx.adjacent_list)
               THEN {<<"inverse-does-not-restore">>} ELSE {})

(***************************************************************************)
(* F-C10-1 (open finding): a section that has a preceding sibling section  *)
(* (its nearest preceding heading is not shallower: ctx.prev_deeper) is    *)
(* wrapped into a list that becomes part of that preceding section;        *)
(* unwrapping gives the heading that section's level + 1, not its own.     *)
(***************************************************************************)
Explained(e, reasons) ==
    IF "F-C10-1" \in Devs /\ Kind(e) = "refactor.rewrite.section.list" /\ e.ctx.prev_deeper
    THEN reasons \ {<<"inverse-does-not-restore">>} ELSE reasons

Prop(e) == IF Kind(e) \in {"refactor.rewrite.list.type", "refactor.rewrite.list.section", "refactor.rewrite.section.list"} THEN "C10" ELSE "C09"

Step == /\ l <= Len(Rec) /\ l' = l + 1
        /\ LET e == Rec[l] IN
           IF e.ev = "Action" /\ Reasons(e) # {}
           THEN PrintT(<<"VERDICT", ToJson([case |-> e.case, prop |-> Prop(e), kind |-> e.kind, ideal |-> Reasons(e),
                                            bad |-> Explained(e, Reasons(e)),
                                            explained |-> IF Explained(e, Reasons(e)) # Reasons(e) THEN {"F-C10-1"} ELSE {}])>>)
           ELSE TRUE
Spec == Init /\ [][Step]_l
Accepted == IF TLCGet("stats").diameter = Len(Rec) THEN PrintT(<<"ACCEPTED", Len(Rec)>>)
            ELSE PrintT(<<"UNCONSUMED", TLCGet("stats").diameter, Len(Rec)>>) /\ FALSE
=============================================================================
