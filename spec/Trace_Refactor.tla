--------------------------- MODULE Trace_Refactor ---------------------------
(***************************************************************************)
(* Judge of the refactoring engine (C09, C10).  One line per code action   *)
(* the real server offered at some line of some note of a TLC-generated    *)
(* library and resolved: the views (Refactor.tla) of every note the edit   *)
(* changed, before and after, the keys it created and deleted, and the     *)
(* outcome of applying the inverse action to the edited library.           *)
(***************************************************************************)
EXTENDS Refactor, Integers, Json, IOUtils

Rec == ndJsonDeserialize(IOEnv.TRACE)
Devs == {Rec[1].devs[i] : i \in 1..Len(Rec[1].devs)}
VARIABLE l
Init == l = 2

Kind(e) == e.kind
Src(e) == e.key   \* key string of the note the action was requested in

Created(e) == Range(e.created)
Deleted(e) == Range(e.deleted)
Before(e) == e.before
After(e) == e.after
KeysBefore(e) == Range(e.keys_before)

SrcKey(e) == CHOOSE k \in KeysBefore(e) : TRUE   \* placeholder, replaced below

SrcViewB(e) == CHOOSE v \in Range(Before(e)) : v.key \notin Deleted(e) /\ \E w \in Range(After(e)) : w.key = v.key
SrcViewA(e) == ViewOf(After(e), SrcViewB(e).key)

TargetBag(views) == SeqBag(AllTargets(views))

(***************************************************************************)
(* Extract section, predicted: the shape (every block with its kind, depth *)
(* and heading level, in order) of the source afterwards is its shape      *)
(* before with the extracted section - the heading on the requested line   *)
(* and everything up to the next heading of the same or a higher level -   *)
(* removed and one reference added at the end of the parent section's own  *)
(* blocks (before its first sub-section); the shape of the new note is the *)
(* section with its headings promoted so that the extracted one is level 1.*)
(***************************************************************************)
MinOf(S) == CHOOSE x \in S : \A y \in S : x <= y
RefEntry == [d |-> 0, first |-> "", k |-> "Ref", l |-> 0]

ExtractPrediction(e) ==
    LET sb == SrcViewB(e).shape
        sa == SrcViewA(e).shape
        new == {v \in Range(After(e)) : v.key \in Created(e)}
        idx == {i \in 1..Len(sb) : sb[i].k = "H" /\ sb[i].d = 0 /\ sb[i].first = e.target_first}
    IN  IF Kind(e) # "refactor.extract.section" \/ Cardinality(idx) # 1 \/ Cardinality(new) # 1 THEN {}
        ELSE LET i == CHOOSE x \in idx : TRUE
                 lvl == sb[i].l
                 ends == {j \in (i + 1)..Len(sb) : sb[j].k = "H" /\ sb[j].d = 0 /\ sb[j].l <= lvl}
                 stop == IF ends = {} THEN Len(sb) + 1 ELSE MinOf(ends)
                 \* the reference is a child of the section that held the extracted one: it stands after that
                 \* section's own blocks and before its first sub-section (a block after a sub-section would
                 \* belong to the sub-section)
                 parents == {j \in 1..(i - 1) : sb[j].k = "H" /\ sb[j].d = 0 /\ sb[j].l < lvl}
                 par == IF parents = {} THEN 0 ELSE CHOOSE j \in parents : \A x \in parents : x <= j
                 z == MinOf({j \in (par + 1)..i : sb[j].k = "H" /\ sb[j].d = 0})
                 expSrc == SubSeq(sb, 1, z - 1) \o <<RefEntry>> \o SubSeq(sb, z, i - 1) \o SubSeq(sb, stop, Len(sb))
                 expNew == [j \in 1..(stop - i) |-> IF sb[i + j - 1].k = "H" /\ sb[i + j - 1].d = 0
                                                     THEN [sb[i + j - 1] EXCEPT !.l = @ - (lvl - 1)] ELSE sb[i + j - 1]]
                 nv == (CHOOSE v \in new : TRUE).shape
             IN  (IF sa # expSrc THEN {<<"source-shape-not-as-predicted", expSrc, sa>>} ELSE {})
                 \cup (IF nv # expNew THEN {<<"new-note-shape-not-as-predicted", expNew, nv>>} ELSE {})

(***************************************************************************)
(* Extract sub-sections, predicted: the section on the requested line      *)
(* keeps its own blocks, followed by one reference per direct sub-section  *)
(* (in their order); each sub-section, promoted to level 1, is the shape   *)
(* of exactly one new note.                                                *)
(***************************************************************************)
RECURSIVE SubStarts(_, _, _, _)
\* positions of the direct sub-headings (level of the first heading after i) in i+1..stop-1
SubStarts(sh, lo, hi, lvl) ==
    IF lo > hi THEN <<>>
    ELSE IF sh[lo].k = "H" /\ sh[lo].d = 0 /\ sh[lo].l = lvl THEN <<lo>> \o SubStarts(sh, lo + 1, hi, lvl)
    ELSE SubStarts(sh, lo + 1, hi, lvl)

SubsectionsPrediction(e) ==
    LET sb == SrcViewB(e).shape
        sa == SrcViewA(e).shape
        new == {v \in Range(After(e)) : v.key \in Created(e)}
        idx == {i \in 1..Len(sb) : sb[i].k = "H" /\ sb[i].d = 0 /\ sb[i].first = e.target_first}
    IN  IF Kind(e) # "refactor.extract.subsections" \/ Cardinality(idx) # 1 THEN {}
        ELSE LET i == CHOOSE x \in idx : TRUE
                 lvl == sb[i].l
                 ends == {j \in (i + 1)..Len(sb) : sb[j].k = "H" /\ sb[j].d = 0 /\ sb[j].l <= lvl}
                 stop == IF ends = {} THEN Len(sb) + 1 ELSE MinOf(ends)
                 heads == {j \in (i + 1)..(stop - 1) : sb[j].k = "H" /\ sb[j].d = 0}
             IN  IF heads = {} THEN {}
                 ELSE LET first == MinOf(heads)
                          sub == sb[first].l
                          starts == SubStarts(sb, first, stop - 1, sub)
                          EndOf(n) == IF n < Len(starts) THEN starts[n + 1] - 1 ELSE stop - 1
                          Promoted(n) == [j \in 1..(EndOf(n) - starts[n] + 1) |->
                                            LET x == sb[starts[n] + j - 1] IN
                                            IF x.k = "H" /\ x.d = 0 THEN [x EXCEPT !.l = @ - (sub - 1)] ELSE x]
                          expSrc == SubSeq(sb, 1, first - 1) \o [n \in 1..Len(starts) |-> RefEntry] \o SubSeq(sb, stop, Len(sb))
                      IN  \* (a deeper first sub-heading followed by shallower ones is outside this prediction)
                          IF \E j \in heads : sb[j].l < sub THEN {}
                          ELSE (IF sa # expSrc THEN {<<"source-shape-not-as-predicted", expSrc, sa>>} ELSE {})
                               \cup (IF Cardinality(new) # Len(starts) THEN {<<"one-note-per-sub-section", Len(starts), Cardinality(new)>>} ELSE {})
                               \cup {<<"sub-section-is-no-new-note", Promoted(n)>> :
                                        n \in {m \in 1..Len(starts) : ~\E v \in new : v.shape = Promoted(m)}}

ExtractReasons(e) ==
    LET sb == SrcViewB(e)
        sa == SrcViewA(e)
        new == {v \in Range(After(e)) : v.key \in Created(e)}
    IN  (IF Created(e) = {} THEN {<<"no-note-created">>} ELSE {})
        \cup {<<"created-key-not-fresh", k>> : k \in Created(e) \cap KeysBefore(e)}
        \cup (IF Deleted(e) # {} THEN {<<"deleted", Deleted(e)>>} ELSE {})
        \cup (IF ~Conserved(Before(e), After(e)) THEN {<<"content-not-conserved">>} ELSE {})
        \* exactly one reference per extracted section, and every other link still resolves to the same note
        \cup (IF TargetBag(After(e)) # TargetBag(Before(e)) (+) SeqBag(SetToSeq(Created(e)))
              THEN {<<"links-changed", TargetBag(Before(e)), TargetBag(After(e))>>} ELSE {})
        \* each new note holds one contiguous part of the source, headed by a top-level heading,
        \* and the reference left behind is titled with that heading
        \cup UNION {(IF v.shape = <<>> \/ v.shape[1].k # "H" \/ v.shape[1].l # 1 THEN {<<"new-note-does-not-start-with-h1", v.key>>} ELSE {})
                    \cup (IF ~\E i \in 0..(Len(sb.words) - Len(v.words)) : SubSeq(sb.words, i + 1, i + Len(v.words)) = v.words
                          THEN {<<"new-note-is-not-a-part-of-the-source", v.key>>} ELSE {})
                    \cup (IF ~\E j \in 1..Len(sa.links) : sa.links[j].target = v.key /\ v.shape # <<>> /\ sa.links[j].text_first = v.shape[1].first
                          THEN {<<"reference-not-titled-with-heading", v.key>>} ELSE {})
                    : v \in new}
        \* the source keeps everything else, in order
        \cup (IF Cardinality(new) = 1 /\ ~IsRemovalOf(sb.words, sa.words, (CHOOSE v \in new : TRUE).words)
              THEN {<<"rest-of-source-changed">>} ELSE {})
        \cup ExtractPrediction(e)
        \cup SubsectionsPrediction(e)

(***************************************************************************)
(* Inline section, predicted: some reference of the host at depth 0 is     *)
(* removed and the shape of the inlined note, its headings demoted by the  *)
(* level of the heading that owns the reference, is inserted at the end of *)
(* that heading's own blocks (before its first sub-section).               *)
(***************************************************************************)
InlinePrediction(e) ==
    LET hb == SrcViewB(e).shape
        ha == SrcViewA(e).shape
        gone == {v \in Range(Before(e)) : v.key \in Deleted(e)}
    IN  IF Kind(e) # "refactor.inline.reference.section" \/ Cardinality(gone) # 1 THEN {}
        ELSE LET tb == (CHOOSE v \in gone : TRUE).shape
                 refs == {r \in 1..Len(hb) : hb[r].k = "Ref" /\ hb[r].d = 0 /\ \E j \in 1..(r - 1) : hb[j].k = "H" /\ hb[j].d = 0}
                 Owner(r) == CHOOSE j \in 1..(r - 1) : hb[j].k = "H" /\ hb[j].d = 0 /\ \A x \in (j + 1)..(r - 1) : ~(hb[x].k = "H" /\ hb[x].d = 0)
                 Zone(r) == LET hs == {j \in (r + 1)..Len(hb) : hb[j].k = "H" /\ hb[j].d = 0} IN IF hs = {} THEN Len(hb) + 1 ELSE MinOf(hs)
                 Demoted(r) == [j \in 1..Len(tb) |-> IF tb[j].k = "H" /\ tb[j].d = 0 THEN [tb[j] EXCEPT !.l = @ + hb[Owner(r)].l] ELSE tb[j]]
                 Exp(r) == SubSeq(hb, 1, r - 1) \o SubSeq(hb, r + 1, Zone(r) - 1) \o Demoted(r) \o SubSeq(hb, Zone(r), Len(hb))
             IN  IF tb = <<>> \/ tb[1].k # "H" \/ refs = {} THEN {}
                 ELSE IF \E r \in refs : Exp(r) = ha THEN {}
                 ELSE {<<"host-shape-not-as-predicted", {Exp(r) : r \in refs}, ha>>}

\* Inline quote, predicted: some reference of the host is replaced, where it stands, by a quote that
\* holds the shape of the inlined note one level deeper
QuotePrediction(e) ==
    LET hb == SrcViewB(e).shape
        ha == SrcViewA(e).shape
        gone == {v \in Range(Before(e)) : v.key \in Deleted(e)}
    IN  IF Kind(e) # "refactor.inline.reference.quote" \/ Cardinality(gone) # 1 THEN {}
        ELSE LET tb == (CHOOSE v \in gone : TRUE).shape
                 refs == {r \in 1..Len(hb) : hb[r].k = "Ref"}
                 Quoted(r) == <<[d |-> hb[r].d, first |-> "", k |-> "Q", l |-> 0]>>
                              \o [j \in 1..Len(tb) |-> [tb[j] EXCEPT !.d = @ + hb[r].d + 1]]
                 Exp(r) == SubSeq(hb, 1, r - 1) \o Quoted(r) \o SubSeq(hb, r + 1, Len(hb))
             IN  IF tb = <<>> \/ refs = {} THEN {}
                 ELSE IF \E r \in refs : Exp(r) = ha THEN {}
                 ELSE {<<"host-shape-not-as-predicted", {Exp(r) : r \in refs}, ha>>}

InlineReasons(e) ==
    LET sb == SrcViewB(e)
        sa == SrcViewA(e)
        gone == {v \in Range(Before(e)) : v.key \in Deleted(e)}
    IN  (IF Cardinality(Deleted(e)) # 1 THEN {<<"inlined-note-not-deleted", Deleted(e)>>} ELSE {})
        \cup (IF Created(e) # {} THEN {<<"created", Created(e)>>} ELSE {})
        \cup (IF ~Conserved(Before(e), After(e)) THEN {<<"content-not-conserved">>} ELSE {})
        \* the reference is gone (one link to the inlined note fewer), all other links resolve as before
        \cup (IF Cardinality(Deleted(e)) = 1 /\ TargetBag(After(e)) (+) SeqBag(SetToSeq(Deleted(e))) # TargetBag(Before(e))
              THEN {<<"links-changed", TargetBag(Before(e)), TargetBag(After(e))>>} ELSE {})
        \* the holding note = its old text with the inlined note's content inserted as one block
        \cup (IF Cardinality(gone) = 1 /\ ~IsRemovalOf(sa.words, sb.words, (CHOOSE v \in gone : TRUE).words)
              THEN {<<"inlined-content-not-inserted-as-one-block">>} ELSE {})
        \cup InlinePrediction(e)
        \cup QuotePrediction(e)

(***************************************************************************)
(* Section to list / list to sections, predicted on shapes.                *)
(*   section -> list: the section on the requested line becomes a bullet   *)
(*     list of one item whose text is the heading; everything the section  *)
(*     held follows inside the item (two levels deeper), its headings      *)
(*     counted from the item.                                              *)
(*   list -> sections: every item of the top-level list on the requested   *)
(*     line becomes a heading one level below the heading that owns the    *)
(*     list; what the item held besides its text follows at depth - 2.     *)
(***************************************************************************)
RECURSIVE Unwrap(_, _, _, _)
\* entries lo..hi of a top-level list (the list entry itself excluded), turned into sections of level lvl
Unwrap(sh, lo, hi, lvl) ==
    IF lo > hi THEN <<>>
    ELSE IF sh[lo].k = "item" /\ sh[lo].d = 1
         THEN IF lo < hi /\ sh[lo + 1].k = "P" /\ sh[lo + 1].d = 2
              THEN <<[d |-> 0, first |-> sh[lo + 1].first, k |-> "H", l |-> lvl]>> \o Unwrap(sh, lo + 2, hi, lvl)
              ELSE <<[d |-> 0, first |-> "", k |-> "H", l |-> lvl]>> \o Unwrap(sh, lo + 1, hi, lvl)
         ELSE <<[sh[lo] EXCEPT !.d = @ - 2]>> \o Unwrap(sh, lo + 1, hi, lvl)

ConvertPrediction(e) ==
    LET hb == SrcViewB(e).shape
        ha == SrcViewA(e).shape
    IN  IF Kind(e) = "refactor.rewrite.section.list"
        THEN LET idx == {i \in 1..Len(hb) : hb[i].k = "H" /\ hb[i].d = 0 /\ hb[i].first = e.target_first}
             IN  IF Cardinality(idx) # 1 THEN {}
                 ELSE LET i == CHOOSE x \in idx : TRUE
                          lvl == hb[i].l
                          ends == {j \in (i + 1)..Len(hb) : hb[j].k = "H" /\ hb[j].d = 0 /\ hb[j].l <= lvl}
                          stop == IF ends = {} THEN Len(hb) + 1 ELSE MinOf(ends)
                          inner == [j \in 1..(stop - i - 1) |->
                                      LET x == hb[i + j] IN
                                      IF x.k = "H" /\ x.d = 0 THEN [x EXCEPT !.d = 2, !.l = @ - lvl] ELSE [x EXCEPT !.d = @ + 2]]
                          exp == SubSeq(hb, 1, i - 1)
                                 \o <<[d |-> 0, first |-> "", k |-> "BL", l |-> 0], [d |-> 1, first |-> "", k |-> "item", l |-> 0],
                                      [d |-> 2, first |-> hb[i].first, k |-> "P", l |-> 0]>>
                                 \o inner \o SubSeq(hb, stop, Len(hb))
                      IN  IF ha # exp THEN {<<"shape-not-as-predicted", exp, ha>>} ELSE {}
        ELSE IF Kind(e) = "refactor.rewrite.list.section"
        THEN LET lists == {i \in 1..Len(hb) : hb[i].k \in {"BL", "OL"} /\ hb[i].d = 0}
                 End(i) == LET out == {j \in (i + 1)..Len(hb) : hb[j].d = 0} IN IF out = {} THEN Len(hb) ELSE MinOf(out) - 1
                 OwnerLevel(i) == LET hs == {j \in 1..(i - 1) : hb[j].k = "H" /\ hb[j].d = 0}
                                  IN  IF hs = {} THEN 0 ELSE hb[CHOOSE j \in hs : \A x \in hs : x <= j].l
                 Exp(i) == SubSeq(hb, 1, i - 1) \o Unwrap(hb, i + 1, End(i), OwnerLevel(i) + 1) \o SubSeq(hb, End(i) + 1, Len(hb))
             IN  IF lists = {} \/ \E i \in lists : Exp(i) = ha THEN {}
                 ELSE {<<"shape-not-as-predicted", {Exp(i) : i \in lists}, ha>>}
        ELSE {}

ConvertReasons(e) ==
    LET sb == SrcViewB(e)
        sa == SrcViewA(e)
    IN  (IF Created(e) # {} \/ Deleted(e) # {} \/ Len(Before(e)) # 1 \/ Len(After(e)) # 1 THEN {<<"touches-other-notes">>} ELSE {})
        \cup (IF ~SameTextInOrder(sb, sa) THEN {<<"text-or-order-changed">>} ELSE {})
        \cup (IF Kind(e) = "refactor.rewrite.list.type" /\ ~OnlyListKindsDiffer(sb, sa) THEN {<<"more-than-list-kind-changed">>} ELSE {})
        \cup (IF Len(Before(e)) = 1 /\ Len(After(e)) = 1 THEN ConvertPrediction(e) ELSE {})

\* "everything else unchanged": a note that is still there keeps its front matter, a created note has none
MetaReasons(e) ==
    {<<"front-matter-changed", v.key>> : v \in {b \in Range(Before(e)) : b.key \notin Deleted(e)
                                                   /\ \E a \in Range(After(e)) : a.key = b.key /\ a.meta # b.meta}}
    \cup {<<"front-matter-invented", v.key>> : v \in {a \in Range(After(e)) : a.key \in Created(e) /\ a.meta # ""}}

\* the note the action was requested in is among the notes the edit rewrote
HasSrc(e) == \E v \in Range(Before(e)) : v.key \notin Deleted(e) /\ \E w \in Range(After(e)) : w.key = v.key

Reasons(e) ==
    IF e.res # "ok" THEN {<<"offered-action-failed", e.res>>}
    ELSE IF Before(e) = <<>> /\ After(e) = <<>> THEN {<<"empty-edit">>}
    ELSE IF ~HasSrc(e) THEN {<<"source-note-not-rewritten", Created(e), Deleted(e)>>}
    ELSE (CASE Kind(e) \in {"refactor.extract.section", "refactor.extract.subsections"} -> ExtractReasons(e)
            [] Kind(e) \in {"refactor.inline.reference.section", "refactor.inline.reference.quote"} -> InlineReasons(e)
            [] Kind(e) \in {"refactor.rewrite.list.type", "refactor.rewrite.list.section", "refactor.rewrite.section.list"} -> ConvertReasons(e)
            [] OTHER -> {})
         \cup MetaReasons(e)
         \* "changing a list's type twice restores the note"; "turning a section that is not adjacent to
         \* another list into a list and back restores the formatted original"; "extracting the first
         \* sub-section and inlining it again restores the formatted original"
         \cup (IF e.rt.applicable /\ ~e.rt.restored /\ ~(Kind(e) = "refactor.rewrite.section.list" /\ e.ctx.adjacent_list)
               THEN {<<"inverse-does-not-restore">>} ELSE {})

(***************************************************************************)
(* F-C10-1 (open finding): a section that has a preceding sibling section  *)
(* (its nearest preceding heading is not shallower: ctx.prev_deeper) is    *)
(* wrapped into a list that becomes part of that preceding section;        *)
(* unwrapping gives the heading that section's level + 1, not its own.     *)
(***************************************************************************)
Explained(e, reasons) ==
    IF "F-C10-1" \in Devs /\ Kind(e) = "refactor.rewrite.section.list" /\ e.ctx.prev_deeper
    THEN reasons \ {<<"inverse-does-not-restore">>} ELSE reasons

Prop(e) == IF Kind(e) \in {"refactor.rewrite.list.type", "refactor.rewrite.list.section", "refactor.rewrite.section.list"} THEN "C10" ELSE "C09"

Step == /\ l <= Len(Rec) /\ l' = l + 1
        /\ LET e == Rec[l] IN
           IF e.ev = "Action" /\ Reasons(e) # {}
           THEN PrintT(<<"VERDICT", ToJson([case |-> e.case, prop |-> Prop(e), kind |-> e.kind, ideal |-> Reasons(e),
                                            bad |-> Explained(e, Reasons(e)),
                                            explained |-> IF Explained(e, Reasons(e)) # Reasons(e) THEN {"F-C10-1"} ELSE {}])>>)
           ELSE TRUE
Spec == Init /\ [][Step]_l
Accepted == IF TLCGet("stats").diameter = Len(Rec) THEN PrintT(<<"ACCEPTED", Len(Rec)>>)
            ELSE PrintT(<<"UNCONSUMED", TLCGet("stats").diameter, Len(Rec)>>) /\ FALSE
=============================================================================
