----------------------------- MODULE Trace_Uri -----------------------------
(***************************************************************************)
(* Judge for C14.  One line per case run against a real server started on  *)
(* a real directory: the number of notes before (n0) and after (n1) an     *)
(* edit notification addressed to the loaded file's URI, whether the edit  *)
(* reached that note (fmt_new), whether a link to the file's path resolves *)
(* to the loaded note (link_titled, refs_ok), and whether URIs in          *)
(* responses open the file that was meant (refs_ok, def_ok, sym_ok).       *)
(***************************************************************************)
EXTENDS Integers, Sequences, TLC, Json, IOUtils

Rec == ndJsonDeserialize(IOEnv.TRACE)
VARIABLE l
Init == l = 1

Reasons(e) ==
    (IF e.n0 # 2 THEN {<<"file-not-loaded-as-one-note", e.n0>>} ELSE {})
    \cup (IF e.n1 # e.n0 THEN {<<"edit-created-a-second-note", e.n0, e.n1>>} ELSE {})
    \cup (IF ~e.fmt_new THEN {<<"edit-did-not-reach-the-loaded-note">>} ELSE {})
    \cup (IF ~e.link_titled THEN {<<"link-to-path-does-not-reach-the-note">>} ELSE {})
    \cup (IF ~e.refs_ok THEN {<<"backlink-uri-or-target-wrong">>} ELSE {})
    \cup (IF ~e.def_ok THEN {<<"definition-uri-does-not-open-the-file">>} ELSE {})
    \cup (IF ~e.sym_ok THEN {<<"symbol-uri-does-not-open-the-file">>} ELSE {})
    \* the workspace edit of a code action on the note (extract its sub-section) addresses the note's file
    \cup (IF "act_ok" \in DOMAIN e /\ ~e.act_ok THEN {<<"code-action-edit-does-not-address-the-file", e.edit_uris>>} ELSE {})

Step == /\ l <= Len(Rec) /\ l' = l + 1
        /\ LET e == Rec[l] IN
           IF e.ev = "Uri" /\ Reasons(e) # {}
           THEN PrintT(<<"VERDICT", ToJson([case |-> e.case, name |-> e.name, dir |-> e.dir, base |-> e.base, bad |-> Reasons(e)])>>)
           ELSE TRUE
Spec == Init /\ [][Step]_l
Accepted == IF TLCGet("stats").diameter - 1 = Len(Rec) THEN PrintT(<<"ACCEPTED", Len(Rec)>>)
            ELSE PrintT(<<"UNCONSUMED", TLCGet("stats").diameter, Len(Rec)>>) /\ FALSE
=============================================================================
