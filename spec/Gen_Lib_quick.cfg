SPECIFICATION GSpec
CONSTANTS
  InitVariants <- QInit
  Init3Variants <- QInit3
  StepVariants <- AllV
  StepKeys <- QKeys
  MaxSteps = 2
INVARIANT Emit
CHECK_DEADLOCK FALSE
