\* libraries only (no edit history): the universe of the refactoring engine
SPECIFICATION GSpec
CONSTANTS
  InitVariants <- AllR
  Init3Variants <- AllR
  StepVariants <- AllV
  StepKeys <- NoKeys
  MaxSteps = 0
INVARIANT Emit
CHECK_DEADLOCK FALSE
