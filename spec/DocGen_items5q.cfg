\* (thorough) what can follow what inside list items and quotes: paragraphs, tables, code, rules, headings, nested
\* bullet / ordered lists and quotes, <= 5 nodes
SPECIFICATION Spec
CONSTANTS
  LeafKinds <- ItemLeavesQ
  ContKinds <- ListQuoteQ
  MaxNodes = 5
  MaxDepth = 2
INVARIANT Emit
CHECK_DEADLOCK FALSE
