SPECIFICATION Spec
CONSTANT SeqLen = 2
INVARIANT Emit
CHECK_DEADLOCK FALSE
