SPECIFICATION Spec
CONSTANTS MaxEntries = 2  MaxOrdinal = 3
INVARIANT Emit
CHECK_DEADLOCK FALSE
