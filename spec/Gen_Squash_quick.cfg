SPECIFICATION Spec
CONSTANTS
  MaxDepth = 4
  DeepDepths <- Deep
INVARIANT Emit
CHECK_DEADLOCK FALSE
