SPECIFICATION TSpec
CONSTANTS
  Keys = {"a", "b"}
  NReq = 60
  NNot = 20
  Design = "wait"
  Catch = TRUE
  Classes = {"ok", "panic", "unknown", "exec", "shutdown"}
INVARIANT TraceInv
POSTCONDITION Accepted
CHECK_DEADLOCK FALSE
