SPECIFICATION Spec
CONSTANTS
  Keys = {1, 2}
  Catalogue <- CatFull
  MaxOps = 4
  DeleteStopsAt = {}
  IndexStopsAt = {}
  ReuseIds = TRUE
INVARIANTS IndexIsFresh
CHECK_DEADLOCK FALSE
