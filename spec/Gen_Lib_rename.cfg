\* libraries only: the universe of the rename check (quick)
SPECIFICATION GSpec
CONSTANTS
  InitVariants <- RInit
  Init3Variants <- RInit3
  StepVariants <- AllV
  StepKeys <- NoKeys
  MaxSteps = 0
INVARIANT Emit
CHECK_DEADLOCK FALSE
