\* all heading-level / paragraph sequences of length <= 5
SPECIFICATION Spec
CONSTANTS
  LeafKinds <- HeadLeaves
  ContKinds <- NoConts
  MaxNodes = 5
  MaxDepth = 0
INVARIANT Emit
CHECK_DEADLOCK FALSE
