SPECIFICATION Spec
CONSTANT SeqLen = 40
INVARIANT Emit
CHECK_DEADLOCK FALSE
