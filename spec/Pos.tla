-------------------------------- MODULE Pos --------------------------------
(***************************************************************************)
(* C13: positions.  A text is a sequence of lines, a line a sequence of    *)
(* characters given by class, and a line ending:                           *)
(*   "a"  1 byte,  1 UTF-16 unit      "e"  2 bytes, 1 unit  (é)             *)
(*   "j"  3 bytes, 1 unit (日)         "x"  4 bytes, 2 units (😀, astral)   *)
(* LSP counts lines by line terminators (LF or CRLF alike) and characters  *)
(* in UTF-16 units.  The implementation at the pinned commit derives       *)
(* positions from parser byte offsets with a line-start table that assumes *)
(* one byte per newline and reports byte columns                           *)
(* (reader.rs line_starts / to_inline_range): ImplCol, ImplLine below.     *)
(*                                                                         *)
(* The generated note has this layout (P = number of leading lines):       *)
(*   lines 0..P-1   one paragraph of P lines (each from `pre`)             *)
(*   (blank)        only if P > 0                                          *)
(*   H              "# Head"                                               *)
(*   (blank)                                                               *)
(*   T              <prefix>[<ltext>](2)<suffix>  the link under test; its  *)
(*                  paragraph may have a second line before or after it    *)
(*   (blank)                                                               *)
(*   R              "[r](2)"                   a block reference           *)
(*   (blank)                                                               *)
(*   I              "- it [i](2)"              a list item with a link ... *)
(*   J              "  more [j](2)"            ... and a second line       *)
(*   K, K2          "- kkkkkkkk [wra" "  p](2)" a second item that ends in a  *)
(*                                             link wrapped over two lines   *)
(*   (blank)                                                               *)
(*   Q              "> [q](2)"                 a quote holding one reference *)
(*   (blank)                                                               *)
(*   W              "w [[2]] x [[2|s]] y"      wiki links                  *)
(*   (blank)                                                               *)
(*   TB             "| h | k |" "|---|---|" "| c | [c](2) |"   a table     *)
(*   (blank)                                                               *)
(*   Z, Y           "tail [z](2)" "end [y](2)"  the last paragraph, with   *)
(*                  or without a final newline                             *)
(***************************************************************************)
EXTENDS Naturals, Sequences, FiniteSets, TLC

Units(c) == IF c = "x" THEN 2 ELSE 1
Bytes(c) == CASE c = "a" -> 1 [] c = "e" -> 2 [] c = "j" -> 3 [] c = "x" -> 4

RECURSIVE SumUnits(_), SumBytes(_)
SumUnits(s) == IF s = <<>> THEN 0 ELSE Units(Head(s)) + SumUnits(Tail(s))
SumBytes(s) == IF s = <<>> THEN 0 ELSE Bytes(Head(s)) + SumBytes(Tail(s))

\* layout: line numbers of the interesting lines for P leading lines; the paragraph of the link
\* under test may have one more line ("wrap": "none" | "after" | "before" the link line)
Before(wrap) == IF wrap = "before" THEN 1 ELSE 0
Extra(wrap) == IF wrap = "none" THEN 0 ELSE 1
HeadLine(P) == IF P = 0 THEN 0 ELSE P + 1
LinkLineW(P, wrap) == HeadLine(P) + 2 + Before(wrap)
RefLineW(P, wrap) == HeadLine(P) + 4 + Extra(wrap)
ItemLineW(P, wrap) == RefLineW(P, wrap) + 2
LinkLine(P) == LinkLineW(P, "none")
RefLine(P) == RefLineW(P, "none")
ItemLine(P) == ItemLineW(P, "none")
LastLine(P) == ItemLine(P)
\* the item has a second line (the same tight paragraph); after it a block quote that holds a single
\* block reference, a table with a link in a cell, and a last paragraph of two lines
JLineW(P, wrap) == ItemLineW(P, wrap) + 1
\* a second item whose link is wrapped over two lines (K: "- kkkkkkkk [wra", K2: "  p](2)")
KLineW(P, wrap) == JLineW(P, wrap) + 1
K2LineW(P, wrap) == JLineW(P, wrap) + 2
QuoteLineW(P, wrap) == K2LineW(P, wrap) + 2
\* a paragraph with a wiki link and a piped wiki link: "w [[2]] x [[2|s]] y"
WikiLineW(P, wrap) == QuoteLineW(P, wrap) + 2
TableLineW(P, wrap) == WikiLineW(P, wrap) + 2
CellLineW(P, wrap) == TableLineW(P, wrap) + 2
ZLineW(P, wrap) == CellLineW(P, wrap) + 2
YLineW(P, wrap) == ZLineW(P, wrap) + 1

\* the link is "[" ltext "](2)"; ltext is a sequence of character classes
LinkLenT(lt) == SumUnits(lt) + 5
LinkLen == 6        \* "[t](2)": ASCII, so bytes = units

\* truth: the UTF-16 span [start, end) of the link on its line
LinkStart(prefix) == SumUnits(prefix)
LinkEndT(prefix, lt) == SumUnits(prefix) + LinkLenT(lt)
LinkEnd(prefix) == LinkEndT(prefix, <<"a">>)
\* the url part inside the parentheses (prepareRename range)
UrlStartT(prefix, lt) == LinkStart(prefix) + SumUnits(lt) + 3
UrlEndT(prefix, lt) == LinkEndT(prefix, lt) - 1
UrlStart(prefix) == UrlStartT(prefix, <<"a">>)
UrlEnd(prefix) == UrlEndT(prefix, <<"a">>)

InLink(P, prefix, line, ch) == line = LinkLine(P) /\ LinkStart(prefix) <= ch /\ ch < LinkEnd(prefix)

\* implementation-shaped (pinned commit): byte columns; with CRLF every earlier line
\* shifts the assumed start of this line by one byte
ImplLinkStart(P, prefix, crlf) == SumBytes(prefix) + (IF crlf THEN LinkLine(P) ELSE 0)
ImplAgreesWithTruth(P, pre, prefix, crlf) ==
    /\ ImplLinkStart(P, prefix, crlf) = LinkStart(prefix)
=============================================================================
