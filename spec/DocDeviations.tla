--------------------------- MODULE DocDeviations ---------------------------
(***************************************************************************)
(* Named deviations of the real formatter from the ideal relations of      *)
(* Doc.tla, one per OPEN known finding (known_findings.json).  A deviation *)
(* has a guard -- a syntactic feature of the abstract INPUT, computed by   *)
(* the harness from the TLC-generated document (TLC cannot look inside     *)
(* strings) -- and says which relations it may excuse on an input with     *)
(* that feature.  Inputs without the feature are judged by the ideal       *)
(* relations alone, so a different violation of the same property is still *)
(* reported; the generators keep the guarded features in documents of      *)
(* their own, apart from the structural universe.                          *)
(***************************************************************************)
EXTENDS Naturals, Sequences, FiniteSets, TLC

Feat(e) == IF "features" \in DOMAIN e THEN {e.features[i] : i \in 1..Len(e.features)} ELSE {}

(***************************************************************************)
(* F-C01-1  "text is written back verbatim".  The reader turns escaped     *)
(* characters, entities and inline HTML into plain Str text and the writer *)
(* emits Str, code spans and link destinations without escaping, so text   *)
(* containing Markdown-special characters (\* \_ \` \[ \< \& \# 1\. ...),  *)
(* a code span containing a backtick, or a destination that needs <...>,   *)
(* is read back as different markup on the next pass.  Excuses content,    *)
(* outline and fixpoint on inputs with one of these features; never a      *)
(* crash.                                                                  *)
(***************************************************************************)
VerbatimFeatures == {"special-word", "code-backtick", "dest-angle", "cell-html"}

Explain(e, devs) ==
    IF "F-C01-1" \in devs /\ Feat(e) \cap VerbatimFeatures # {}
    THEN [ids |-> {"F-C01-1"}, doc |-> e["in"], crash |-> FALSE, nofix |-> TRUE, content |-> TRUE]
    ELSE [ids |-> {}, doc |-> e["in"], crash |-> FALSE, nofix |-> FALSE, content |-> FALSE]
=============================================================================
