----------------------------- MODULE Trace_Keys -----------------------------
(***************************************************************************)
(* Judge for C15: what the real Key API (and completion items, extracted   *)
(* references) wrote or resolved for each generated pair, against the      *)
(* ideal algebra of Keys.tla.                                              *)
(*  write:  the url the code wrote for key k from directory d must         *)
(*          resolve, from d, back to exactly k                             *)
(*  read:   the key the code resolved url u to from d must be Resolve(d,u) *)
(*          (when u does not climb out of the library), and re-writing it  *)
(*          from d must give a url that resolves to the same note          *)
(***************************************************************************)
EXTENDS Keys, Integers, TLC, Json, IOUtils

Rec == ndJsonDeserialize(IOEnv.TRACE)
VARIABLE l
Init == l = 1

Reasons(e) ==
    IF e.ev = "write"
    THEN (IF Resolve(e.d, e.url) # e.k THEN {<<"written-link-does-not-resolve-back", e.via, e.raw>>} ELSE {})
    ELSE IF e.ev = "read" /\ Resolve(e.d, e.u) # NoKey
    THEN (IF e.key # Resolve(e.d, e.u) THEN {<<"resolved-to-another-note", e.key>>} ELSE {})
         \cup (IF Resolve(e.d, e.rewritten) # Resolve(e.d, e.u) THEN {<<"rewrite-changes-target", e.rewritten_raw>>} ELSE {})
    ELSE {}

Step == /\ l <= Len(Rec) /\ l' = l + 1
        /\ LET e == Rec[l] IN
           IF e.ev \in {"write", "read"} /\ Reasons(e) # {}
           THEN PrintT(<<"VERDICT", ToJson([line |-> l, ev |-> e.ev, d |-> e.d, bad |-> Reasons(e)])>>)
           ELSE TRUE
Spec == Init /\ [][Step]_l

Accepted == IF TLCGet("stats").diameter - 1 = Len(Rec) THEN PrintT(<<"ACCEPTED", Len(Rec)>>)
            ELSE PrintT(<<"UNCONSUMED", TLCGet("stats").diameter, Len(Rec)>>) /\ FALSE
=============================================================================
