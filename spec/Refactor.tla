------------------------------ MODULE Refactor ------------------------------
(***************************************************************************)
(* Ideal relations of the tree-surgery refactorings (C09, C10), between    *)
(* the notes an action changed BEFORE and AFTER its workspace edit was     *)
(* applied.  A note view is                                                *)
(*   [key, words, links, shape]                                            *)
(* words  = every word / code body / cell text of the note in document     *)
(*          order (texts are unique words, so this identifies content);    *)
(*          the text of an ordinary link to a note is presentation         *)
(* links  = every link in order: [target (the key it resolves to from the  *)
(*          note's own directory), ext, kind, text]                        *)
(* shape  = every block in order: [k (kind), l (heading level), d (depth   *)
(*          of nesting in lists / quotes), first (its first word)]         *)
(***************************************************************************)
EXTENDS Naturals, Sequences, FiniteSets, TLC, Bags, SequencesExt

RECURSIVE Cat(_)
Cat(ss) == IF ss = <<>> THEN <<>> ELSE Head(ss) \o Cat(Tail(ss))

SeqBag(s) == IF s = <<>> THEN EmptyBag ELSE LET b == SetToBag({}) IN
             [x \in Range(s) |-> Cardinality({i \in 1..Len(s) : s[i] = x})]

AllWords(views) == Cat([i \in 1..Len(views) |-> views[i].words])
AllTargets(views) == Cat([i \in 1..Len(views) |-> [j \in 1..Len(views[i].links) |-> views[i].links[j].target]])

ViewOf(views, k) == CHOOSE v \in Range(views) : v.key = k
HasView(views, k) == \E v \in Range(views) : v.key = k

\* "every piece of text appears exactly once": the bag of words over all touched notes is unchanged
Conserved(before, after) == SeqBag(AllWords(before)) = SeqBag(AllWords(after))

\* s is t with one contiguous block removed; returns the set of possible blocks
RemovedBlocks(t, s) ==
    {SubSeq(t, i + 1, i + (Len(t) - Len(s))) : i \in {j \in 0..Len(s) : t = SubSeq(s, 1, j) \o SubSeq(t, j + 1, j + (Len(t) - Len(s))) \o SubSeq(s, j + 1, Len(s))}}

IsRemovalOf(t, s, block) == Len(t) = Len(s) + Len(block) /\ block \in RemovedBlocks(t, s)

\* --------------------------------------------------------------------------
\* C10: list / section conversions on one note
\* --------------------------------------------------------------------------
\* keep every word, link and nested block, and the order of everything
SameTextInOrder(b, a) == b.words = a.words /\ [i \in 1..Len(b.links) |-> b.links[i].target] = [i \in 1..Len(a.links) |-> a.links[i].target]

\* change-list-type: nothing but the kind of lists differs
KindBlind(s) == [i \in 1..Len(s) |-> [s[i] EXCEPT !.k = IF @ \in {"BL", "OL"} THEN "L" ELSE @]]
OnlyListKindsDiffer(b, a) == KindBlind(b.shape) = KindBlind(a.shape) /\ b.shape # a.shape
=============================================================================
