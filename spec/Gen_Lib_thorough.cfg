SPECIFICATION GSpec
CONSTANTS
  InitVariants <- TInit
  Init3Variants <- TInit3
  StepVariants <- AllV
  StepKeys <- AllKeys
  MaxSteps = 2
INVARIANT Emit
CHECK_DEADLOCK FALSE
