\* every document of <= 4 nodes over the full block alphabet, depth <= 2
SPECIFICATION Spec
CONSTANTS
  LeafKinds <- FullLeaves
  ContKinds <- AllConts
  MaxNodes = 4
  MaxDepth = 2
INVARIANT Emit
CHECK_DEADLOCK FALSE
