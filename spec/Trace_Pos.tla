----------------------------- MODULE Trace_Pos -----------------------------
(***************************************************************************)
(* Judge for C13.  Each line: a generated text (with the truth from        *)
(* Pos.tla in `case`) and what the real server did at every position of a  *)
(* window: where go-to-definition, prepare-rename and rename acted, the    *)
(* range prepare-rename returned, and the lines reported for the linking   *)
(* blocks, the heading, and the code actions.                              *)
(***************************************************************************)
EXTENDS Integers, Sequences, FiniteSets, TLC, Json, IOUtils

Rec == ndJsonDeserialize(IOEnv.TRACE)
VARIABLE l
Init == l = 1

Range(s) == {s[i] : i \in 1..Len(s)}

\* "act on a link exactly when the cursor is inside that link's source span"
Span(c, line) ==
    IF line = c.link_line THEN {<<line, ch>> : ch \in c.link_start..(c.link_end - 1)}
    ELSE IF line = c.ref_line THEN {<<line, ch>> : ch \in 0..5}            \* "[r](2)"
    ELSE IF line = c.item_line THEN {<<line, ch>> : ch \in 5..10}          \* "- it [i](2)"
    ELSE IF line = c.j_line THEN {<<line, ch>> : ch \in 7..12}             \* "  more [j](2)"
    ELSE IF line = c.k_line THEN {<<line, ch>> : ch \in 11..c.maxch}      \* "- kkkkkkkk [wra": the link runs to the end of the line
    ELSE IF line = c.k2_line THEN {<<line, ch>> : ch \in 2..6}            \* "  p](2)"
    ELSE IF line = c.quote_line THEN {<<line, ch>> : ch \in 2..7}          \* "> [q](2)"
    ELSE IF line = c.wiki_line THEN {<<line, ch>> : ch \in (2..6) \cup (10..16)}   \* "w [[2]] x [[2|s]] y"
    ELSE IF line = c.cell_line THEN {<<line, ch>> : ch \in 6..11}          \* "| c | [c](2) |"
    ELSE IF line = c.z_line THEN {<<line, ch>> : ch \in 5..10}             \* "tail [z](2)"
    ELSE IF line = c.y_line THEN {<<line, ch>> : ch \in 4..9}              \* "end [y](2)"
    ELSE {}
Window(c) == UNION {{<<line, ch>> : ch \in 0..c.maxch} : line \in 0..(c.last_line + 1)}
Expected(c) == (UNION {Span(c, line) : line \in 0..(c.last_line + 1)}) \cap Window(c)
\* not judged: the indentation of the continuation line of the wrapped link (the link's span is kept as one
\* start..end pair, so these two columns count as inside it) and the columns past the end of its first line
DontCare(c) == {<<c.k2_line, 0>>, <<c.k2_line, 1>>} \cup {<<c.k_line, ch>> : ch \in 15..c.maxch}

\* (with nothing before or after it the link under test is itself a block reference)
RefBlockLines(c) == IF c.prefix = <<>> /\ c.suffix = <<>> /\ c.wrap = "none" THEN <<c.link_line, c.ref_line, c.quote_line>> ELSE <<c.ref_line, c.quote_line>>

Fired(s) == {<<p[1], p[2]>> : p \in Range(s)}

Reasons(e) ==
    LET c == e.case
        exp == Expected(c)
        dc == DontCare(c)
    IN  {<<"definition-outside-link", p>> : p \in (Fired(e.def) \ exp) \ dc}
        \cup {<<"definition-missed-inside-link", p>> : p \in (exp \ Fired(e.def)) \ dc}
        \cup {<<"prepare-rename-outside-link", p>> : p \in ({<<q[1], q[2]>> : q \in Range(e.prep)} \ exp) \ dc}
        \cup {<<"prepare-rename-missed", p>> : p \in (exp \ {<<q[1], q[2]>> : q \in Range(e.prep)}) \ dc}
        \cup {<<"rename-outside-link", p>> : p \in (Fired(e.ren) \ exp) \ dc}
        \cup {<<"rename-missed", p>> : p \in (exp \ Fired(e.ren)) \ dc}
        \* the range returned for the link under test is the url inside its parentheses
        \cup {<<"rename-range-wrong", q>> :
                 q \in {r \in Range(e.prep) : r[1] = c.link_line /\ (r[3] # c.link_line \/ r[4] # c.url_start \/ r[5] # c.link_line \/ r[6] # c.url_end)}}
        \* locations name the line where the block really is
        \cup (IF e.ref_lines # <<c.block_line, c.ref_line, c.item_line, c.k_line, c.quote_line, c.wiki_line, c.table_line, c.z_line>> THEN {<<"reference-lines", e.ref_lines>>} ELSE {})
        \cup (IF e.hint_lines # RefBlockLines(c) THEN {<<"hint-lines", e.hint_lines>>} ELSE {})
        \cup (IF e.sym_lines # <<c.head_line>> THEN {<<"symbol-lines", e.sym_lines>>} ELSE {})
        \* code actions offered at a line operate on the block that covers that line
        \cup (IF e.list_lines # <<c.item_line, c.j_line, c.k_line, c.k2_line>> THEN {<<"list-action-lines", e.list_lines>>} ELSE {})
        \cup (IF e.inline_lines # RefBlockLines(c) THEN {<<"inline-action-lines", e.inline_lines>>} ELSE {})
        \cup (IF e.section_lines # <<c.head_line>> THEN {<<"section-action-lines", e.section_lines>>} ELSE {})
        \* ... also when the editor (Helix, cursor resting on the line) sends the range from that line to the start of the next
        \cup (IF "helix_list_lines" \in DOMAIN e /\ e.helix_list_lines # <<c.item_line, c.j_line, c.k_line, c.k2_line>> THEN {<<"helix-list-action-lines", e.helix_list_lines>>} ELSE {})
        \cup (IF "helix_inline_lines" \in DOMAIN e /\ e.helix_inline_lines # RefBlockLines(c) THEN {<<"helix-inline-action-lines", e.helix_inline_lines>>} ELSE {})
        \cup (IF "helix_section_lines" \in DOMAIN e /\ e.helix_section_lines # <<c.head_line>> THEN {<<"helix-section-action-lines", e.helix_section_lines>>} ELSE {})
        \cup (IF e.errors # 0 THEN {<<"requests-failed", e.errors>>} ELSE {})

Step == /\ l <= Len(Rec) /\ l' = l + 1
        /\ LET e == Rec[l] IN
           IF e.ev = "Pos" /\ Reasons(e) # {}
           THEN PrintT(<<"VERDICT", ToJson([id |-> e.id, bad |-> Reasons(e)])>>)
           ELSE TRUE
Spec == Init /\ [][Step]_l
Accepted == IF TLCGet("stats").diameter - 1 = Len(Rec) THEN PrintT(<<"ACCEPTED", Len(Rec)>>)
            ELSE PrintT(<<"UNCONSUMED", TLCGet("stats").diameter, Len(Rec)>>) /\ FALSE
=============================================================================
