\* what can follow what inside list items and quotes: paragraphs, tables, code, rules, nested lists and quotes, <= 5 nodes
SPECIFICATION Spec
CONSTANTS
  LeafKinds <- ItemLeaves
  ContKinds <- ListQuote
  MaxNodes = 5
  MaxDepth = 2
INVARIANT Emit
CHECK_DEADLOCK FALSE
