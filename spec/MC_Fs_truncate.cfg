\* EXPECTED TO FAIL: the write protocol of the pinned commit (fs::write truncates first)
SPECIFICATION Spec
CONSTANTS
  Notes <- MCNotes
  MdMd <- MCNoMdMd
  Others <- MCOthers
  MaxChunks = 3
  Protocol = "truncate"
  KeyRule = "one"
INVARIANTS TypeOK Intact InPlace NothingElseTouched
CHECK_DEADLOCK FALSE
