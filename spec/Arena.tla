------------------------------- MODULE Arena -------------------------------
(***************************************************************************)
(* The arena of the document graph, implementation-shaped                  *)
(* (crates/liwe/src/graph/arena.rs, builder.rs, graph.rs).                 *)
(*                                                                         *)
(*   nodes : Seq(Node)   index = node id + 1; kind "Empty" = tombstone     *)
(*   Node  == [kind, prev, next, child, key]   ids 0-based, -1 = none      *)
(*   keys  : Key -> id of the note's Document node                         *)
(*   index : RefIndex, a set of <<"b" | "i", target key, node id>>: block   *)
(*           references (Reference nodes) and links inside the text of     *)
(*           sections, leaves and tables.  Entries are only ever added     *)
(*           (RefIndex::merge); queries drop the ids of tombstones.        *)
(*                                                                         *)
(* Actions, one per operation of the code:                                 *)
(*   Update(k, t)       Graph::update_key / insert_document: delete_branch *)
(*                      of the old root if the key exists, then build;     *)
(*                      Graph::import is a sequence of these on new keys   *)
(*   MakePatch          new_patch + build_key_from_iter for the notes      *)
(*                      (formatting, rename, code actions): a second arena *)
(* Keys are naturals (their order is the order patches are built in).      *)
(* Building follows GraphBuilder::add_node_and: a new node becomes the     *)
(* child of the cursor when the cursor is in insert mode, else its next    *)
(* sibling; its prev is the cursor; ids are arena length (never reused).   *)
(* delete_branch tombstones a node, its child chain and its next chain.    *)
(*                                                                         *)
(* DeleteStopsAt is the set of kinds at which delete_branch forgets to     *)
(* follow `next` ({} = the code; {"T"} = the slip index_node once had):    *)
(* a design knob that TLC must reject.  ReuseIds = TRUE models an arena    *)
(* that reclaims trailing tombstones.                                      *)
(***************************************************************************)
EXTENDS Integers, Sequences, FiniteSets, SequencesExt, TLC

CONSTANTS Keys, Catalogue, MaxOps, DeleteStopsAt, ReuseIds, IndexStopsAt

\* a tree is [k |-> kind, c |-> Seq(tree)], optionally with tgt (the note a Reference node points
\* to) and refs (sequence of the notes linked from the node's text); the root has kind "D"
VARIABLES nodes, keys, docs, ops, patch, index

vars == <<nodes, keys, docs, ops, patch, index>>

None == -1
N(ns, id) == ns[id + 1]
Empty == [kind |-> "Empty", prev |-> None, next |-> None, child |-> None, key |-> "", tgt |-> 0, refs |-> {}]
Tgt(t) == IF "tgt" \in DOMAIN t THEN t.tgt ELSE 0
Refs(t) == IF "refs" \in DOMAIN t THEN {t.refs[i] : i \in 1..Len(t.refs)} ELSE {}

(***************************************************************************)
(* building a tree into an arena                                           *)
(***************************************************************************)
RECURSIVE Size(_), SizeAll(_)
SizeAll(ts) == IF ts = <<>> THEN 0 ELSE Size(Head(ts)) + SizeAll(Tail(ts))
Size(t) == 1 + SizeAll(t.c)

\* nodes of the sibling list ts in pre-order; the first is attached to `cursor`
\* (as its child when asChild, else as its next); ids start at base
RECURSIVE Emit(_, _, _, _)
Emit(ts, cursor, asChild, base) ==
    IF ts = <<>> THEN <<>>
    ELSE LET t == Head(ts)
             id == base
             kids == Emit(t.c, id, TRUE, base + 1)
             after == base + 1 + SizeAll(t.c)
             rest == Emit(Tail(ts), id, FALSE, after)
             me == [kind |-> t.k, prev |-> cursor,
                    next |-> IF Tail(ts) = <<>> THEN None ELSE after,
                    child |-> IF t.c = <<>> THEN None ELSE base + 1,
                    key |-> "", tgt |-> Tgt(t), refs |-> Refs(t)]
         IN  <<me>> \o kids \o rest

\* Graph::build_key + insert_from_iter: the Document node, then its content as children
BuildInto(ns, k, t) ==
    LET root == Len(ns)
        doc == [kind |-> "D", prev |-> None, next |-> None, child |-> IF t.c = <<>> THEN None ELSE root + 1, key |-> k,
                tgt |-> 0, refs |-> {}]
    IN  ns \o <<doc>> \o Emit(t.c, root, TRUE, root + 1)

(***************************************************************************)
(* Arena::delete_branch                                                    *)
(***************************************************************************)
RECURSIVE Doomed(_, _, _)
Doomed(ns, id, fuel) ==
    IF id = None \/ fuel = 0 THEN {}
    ELSE {id} \cup Doomed(ns, N(ns, id).child, fuel - 1)
              \cup (IF N(ns, id).kind \in DeleteStopsAt THEN {} ELSE Doomed(ns, N(ns, id).next, fuel - 1))

DeleteBranch(ns, root) ==
    LET d == Doomed(ns, root, Len(ns) + 1)
    IN  [i \in 1..Len(ns) |-> IF (i - 1) \in d THEN Empty ELSE ns[i]]

\* (design knob) reclaim the tombstones at the end of the arena
RECURSIVE Shrink(_)
Shrink(ns) == IF ns # <<>> /\ ns[Len(ns)].kind = "Empty" THEN Shrink(SubSeq(ns, 1, Len(ns) - 1)) ELSE ns

(***************************************************************************)
(* RefIndex::index_node: what indexing from node id adds.  A Document is   *)
(* followed through its child, a Reference / Leaf / Raw / rule / Table     *)
(* through next, sections, quotes and lists through both.  IndexStopsAt is *)
(* the set of kinds after which the walk forgets `next` ({} = the code).   *)
(***************************************************************************)
RECURSIVE IW(_, _, _)
IW(ns, id, fuel) ==
    IF id = None \/ fuel = 0 THEN {}
    ELSE LET n == N(ns, id) IN
         (IF n.kind = "R" THEN {<<"b", n.tgt, id>>} ELSE {})
         \cup (IF n.kind \in {"S", "L", "T"} THEN {<<"i", k, id>> : k \in n.refs} ELSE {})
         \cup (IF n.kind \in {"D", "S", "Q", "BL", "OL"} THEN IW(ns, n.child, fuel - 1) ELSE {})
         \cup (IF n.kind = "D" \/ n.kind \in IndexStopsAt THEN {} ELSE IW(ns, n.next, fuel - 1))
IndexFrom(ns, id) == IW(ns, id, Len(ns) + 1)

\* Graph::get_block_references_to / get_inline_references_to: the ids of tombstones are dropped
IndexRefsTo(ix, ns, kind, k) == {e[3] : e \in {x \in ix : x[1] = kind /\ x[2] = k /\ x[3] < Len(ns) /\ N(ns, x[3]).kind # "Empty"}}

(***************************************************************************)
(* actions                                                                 *)
(***************************************************************************)
Init == nodes = <<>> /\ keys = [k \in {} |-> 0] /\ docs = [k \in {} |-> 0] /\ ops = 0 /\ patch = <<>> /\ index = {}

SetKey(f, k, v) == [x \in DOMAIN f \cup {k} |-> IF x = k THEN v ELSE f[x]]

\* update_key: delete the old version if there is one, then build the new one
Update(k, t) ==
    /\ ops < MaxOps
    /\ LET cleared == IF k \in DOMAIN keys THEN DeleteBranch(nodes, keys[k]) ELSE nodes
           base == IF ReuseIds THEN Shrink(cleared) ELSE cleared
       IN  /\ nodes' = BuildInto(base, k, t)
           /\ keys' = SetKey(keys, k, Len(base))
           \* from_markdown: index the new version from its root and merge
           /\ index' = index \cup IndexFrom(BuildInto(base, k, t), Len(base))
    /\ docs' = SetKey(docs, k, t)
    /\ ops' = ops + 1
    /\ patch' = <<>>

\* a patch graph built from the trees of all current notes (a fresh arena)
RECURSIVE BuildAll(_, _)
BuildAll(ns, ks) == IF ks = <<>> THEN ns ELSE BuildAll(BuildInto(ns, Head(ks), docs[Head(ks)]), Tail(ks))

MakePatch ==
    /\ patch = <<>> /\ DOMAIN keys # {}
    /\ patch' = BuildAll(<<>>, SortSeq(SetToSeq(DOMAIN keys), LAMBDA a, b : a < b))
    /\ UNCHANGED <<nodes, keys, docs, ops, index>>

Next == \/ \E k \in Keys, t \in Catalogue : Update(k, t)
        \/ MakePatch

Spec == Init /\ [][Next]_vars

(***************************************************************************)
(* C20: the forest                                                         *)
(***************************************************************************)
Live(ns) == {i \in 0..(Len(ns) - 1) : N(ns, i).kind # "Empty"}
Succ(ns, id) == {x \in {N(ns, id).child, N(ns, id).next} : x # None}

RECURSIVE ReachFrom(_, _, _)
ReachFrom(ns, frontier, seen) ==
    IF frontier = {} THEN seen
    ELSE LET new == (UNION {Succ(ns, i) : i \in frontier}) \ seen
         IN  ReachFrom(ns, {i \in new : i < Len(ns)}, seen \cup new)
Reach(ns, root) == ReachFrom(ns, {root}, {root})

RefsTo(ns, i) == {j \in Live(ns) : N(ns, j).child = i \/ N(ns, j).next = i}

Forest(ns, ks) ==
    LET roots == {ks[k] : k \in DOMAIN ks}
    IN  /\ \A k \in DOMAIN ks : ks[k] \in Live(ns) /\ N(ns, ks[k]).kind = "D" /\ N(ns, ks[k]).key = k
        \* every live node has exactly one place, and prev points back at it
        /\ \A i \in Live(ns) \ roots : Cardinality(RefsTo(ns, i)) = 1 /\ N(ns, i).prev \in RefsTo(ns, i)
        \* links never lead to tombstones or outside
        /\ \A i \in Live(ns) : \A s \in Succ(ns, i) : s < Len(ns) /\ s \in Live(ns)
        \* notes are disjoint and together own every live node
        /\ \A k1, k2 \in DOMAIN ks : k1 # k2 => Reach(ns, ks[k1]) \cap Reach(ns, ks[k2]) = {}
        /\ Live(ns) = UNION {Reach(ns, ks[k]) : k \in DOMAIN ks}

ForestInv == Forest(nodes, keys)
PatchInv == patch # <<>> => \E ks \in [DOMAIN keys -> 0..Len(patch)] : Forest(patch, ks)

\* what walking a note visits is exactly the tree that was last written for it
RECURSIVE Walk(_, _)
Walk(ns, id) ==
    IF id = None THEN <<>>
    ELSE <<[k |-> N(ns, id).kind, c |-> Walk(ns, N(ns, id).child)]>> \o Walk(ns, N(ns, id).next)
RECURSIVE Shape(_)
Shape(ts) == [i \in 1..Len(ts) |-> [k |-> ts[i].k, c |-> Shape(ts[i].c)]]
WalkIsLastVersion == \A k \in DOMAIN keys : Walk(nodes, N(nodes, keys[k]).child) = Shape(docs[k].c)

\* C04 / C05 at the level of node ids: what the incrementally maintained index answers is what an
\* index built from scratch over the live notes answers
\* (Graph::import indexes every node of the arena: the ideal index is over the live nodes)
FreshIndex == {<<"b", N(nodes, id).tgt, id>> : id \in {i \in Live(nodes) : N(nodes, i).kind = "R"}}
              \cup UNION {{<<"i", k, id>> : k \in N(nodes, id).refs} : id \in {i \in Live(nodes) : N(nodes, i).kind \in {"S", "L", "T"}}}
AllTargets == {e[2] : e \in index \cup FreshIndex}
IndexIsFresh == \A kind \in {"b", "i"}, k \in AllTargets :
                    IndexRefsTo(index, nodes, kind, k) = IndexRefsTo(FreshIndex, nodes, kind, k)

\* action properties: an operation on one note leaves the nodes of the others alone,
\* ids are never reused, the arena never shrinks
OthersUntouched ==
    [][\A k \in DOMAIN keys : (k \in DOMAIN keys' /\ keys'[k] = keys[k] /\ docs'[k] = docs[k]) =>
            \A i \in Reach(nodes, keys[k]) : i < Len(nodes') /\ N(nodes', i) = N(nodes, i)]_vars
IdsMonotone ==
    [][/\ Len(nodes') >= Len(nodes)
       /\ \A i \in 0..(Len(nodes) - 1) : N(nodes, i).kind = "Empty" => N(nodes', i).kind = "Empty"]_vars
=============================================================================
