\* EXPECTED TO FAIL: the URI handling of the pinned commit
SPECIFICATION Spec
CONSTANTS
  MaxLen = 1
  NameClasses <- AllClasses
INVARIANTS PinnedDesignOK
CHECK_DEADLOCK FALSE
