------------------------------ MODULE Builder ------------------------------
(***************************************************************************)
(* The graph builder, transcribed: how a parsed document becomes arena     *)
(* nodes (crates/liwe/src/graph/builder.rs GraphBuilder::add_node_and,     *)
(* crates/liwe/src/graph/sections_builder.rs process_blocks /              *)
(* process_section / append_blocks / section_block / block).               *)
(*                                                                         *)
(* The builder is a cursor into the arena with an insert flag:             *)
(*   st == [ns |-> arena, cur |-> id of the current node, ins |-> BOOLEAN] *)
(*   AddNode: the new node becomes the child of cur when ins, else its     *)
(*   next sibling; its prev is cur; cur moves to it; ins becomes FALSE.    *)
(* The document is a sequence of blocks [k, l, t, c, items, ...] as DocGen *)
(* generates them:  k = "H" (level l) | "P" (a paragraph; a block          *)
(* reference when its only token is a link) | "Code" | "Rule" | "Tbl" |    *)
(* "Q" (blocks c) | "BL" / "OL" (items: sequences of blocks).              *)
(*                                                                         *)
(* Every operator returns the builder state after the corresponding        *)
(* function of the code has returned.                                      *)
(***************************************************************************)
EXTENDS Integers, Sequences, FiniteSets

\* Slip: the empty set for the code as it is.  Each element switches on one way the builder has gone wrong
\* before (the teeth configurations MC_Builder_<slip>.cfg must be rejected by TLC):
\*   "list-insert-left-on"     block(): insert mode is not switched off after the items of a list
\*   "section-insert-left-on"  process_section(): insert mode is not switched off after the section's blocks
\*   "leading-list-first-child" process_section(): what follows the leading list of an item is inserted as
\*                             the first child of the merged item instead of after its children
\*   "empty-leading-list"      process_section(): a leading list that left no node behind is not noticed
\*   "append-flat"             append_blocks(): headings after the leading list of an item are not nested by level
CONSTANT Slip

None == -1
Nd(kind, prev, txt) == [kind |-> kind, prev |-> prev, next |-> None, child |-> None, txt |-> txt]
At(ns, id) == ns[id + 1]

IsList(b) == b.k \in {"BL", "OL"}
IsRef(b) == b.k = "P" /\ Len(b.t) = 1 /\ b.t[1].k = "Link"
\* is_section_text: Para | Plain | Header | Div | BulletList | OrderedList
IsSectionText(b) == b.k \in {"P", "H", "BL", "OL"}

SetId(st, id) == [st EXCEPT !.cur = id]
SetIns(st, b) == [st EXCEPT !.ins = b]

\* GraphBuilder::add_node_and
AddNode(st, kind, txt) ==
    LET id == Len(st.ns)
        linked == IF st.ins THEN [st.ns EXCEPT ![st.cur + 1].child = id] ELSE [st.ns EXCEPT ![st.cur + 1].next = id]
    IN  [ns |-> Append(linked, Nd(kind, st.cur, txt)), cur |-> id, ins |-> FALSE]

Min(S) == CHOOSE x \in S : \A y \in S : x <= y

\* first_header(lo..hi): position of the first heading in [lo, hi), or hi
FirstHeader(bs, lo, hi) == LET hs == {i \in lo..(hi - 1) : bs[i].k = "H"} IN IF hs = {} THEN hi ELSE Min(hs)

RECURSIVE ProcessBlocks(_, _, _, _), PlaceBlocks(_, _, _, _), Sections(_, _, _, _, _), ProcessSection(_, _, _, _), SectionBlock(_, _),
          Items(_, _, _), Block(_, _), Blocks(_, _, _, _), AppendBlocks(_, _, _, _), AppendFrom(_, _, _, _, _), LastSibling(_, _)

\* the blocks lo..hi-1 one after the other through block()
Blocks(st, bs, lo, hi) == IF lo >= hi THEN st ELSE Blocks(Block(st, bs[lo]), bs, lo + 1, hi)

\* place_blocks(lo..hi): the blocks before the first heading, then the sections
PlaceBlocks(st, bs, lo, hi) ==
    LET fh == FirstHeader(bs, lo, hi)
        pre == Blocks(st, bs, lo, fh)
    IN  IF fh = hi THEN pre ELSE Sections(pre, bs, fh, hi, bs[fh].l)

\* process_blocks(lo..hi): the blocks become the children of the current node
ProcessBlocks(st, bs, lo, hi) == IF lo >= hi THEN st ELSE PlaceBlocks(SetIns(st, TRUE), bs, lo, hi)

\* ranges(positions, end): p is a heading of level <= L, its section runs to the next such heading
Sections(st, bs, p, hi, L) ==
    LET nxt == {x \in (p + 1)..(hi - 1) : bs[x].k = "H" /\ bs[x].l <= L}
        e == IF nxt = {} THEN hi ELSE Min(nxt)
        done == ProcessSection(st, bs, p, e)
    IN  IF e = hi THEN done ELSE Sections(done, bs, e, hi, L)

\* the last node of the sibling chain that starts at id
LastSibling(ns, id) == IF At(ns, id).next = None THEN id ELSE LastSibling(ns, At(ns, id).next)

\* process_section(lo..hi)
ProcessSection(st, bs, lo, hi) ==
    IF lo >= hi THEN st
    ELSE IF ~IsSectionText(bs[lo])
         \* an item that starts with a code block, quote, table or rule: an empty text, the blocks are its content
         THEN LET s1 == AddNode(st, "S", FALSE)
              IN  SetId(ProcessBlocks(s1, bs, lo, hi), s1.cur)
    ELSE LET s1 == SectionBlock(st, bs[lo])
             id == s1.cur
         IN  IF id = st.cur /\ IsList(bs[lo]) /\ "empty-leading-list" \notin Slip
             \* the leading list left no node behind: the item is what follows it
             THEN ProcessSection(s1, bs, lo + 1, hi)
             ELSE IF IsList(bs[lo]) /\ At(s1.ns, id).child # None /\ "leading-list-first-child" \notin Slip
             \* an item that starts with a list is merged into the enclosing list; what follows the leading
             \* list continues the children of the last merged item
             THEN LET last == LastSibling(s1.ns, At(s1.ns, id).child)
                      s2 == AppendBlocks(SetId(s1, last), bs, lo + 1, hi)
                  IN  SetIns(SetId(s2, id), FALSE)
             ELSE LET s2 == SetId(ProcessBlocks(s1, bs, lo + 1, hi), id)
                  IN  IF "section-insert-left-on" \in Slip THEN s2 ELSE SetIns(s2, FALSE)

\* section_block
SectionBlock(st, b) ==
    IF b.k \in {"P", "H"} THEN AddNode(st, "S", TRUE)
    ELSE IF IsList(b) THEN Items(st, b.items, 1)
    ELSE [st EXCEPT !.ns = Append(@, Nd("PANIC", None, FALSE))]          \* panic!("section block panic")

\* for b in list.items: process_section(0..b.len(), b)
Items(st, items, i) == IF i > Len(items) THEN st ELSE Items(ProcessSection(st, items[i], 1, Len(items[i]) + 1), items, i + 1)

\* block
Block(st, b) ==
    CASE b.k = "Code" -> AddNode(st, "Raw", FALSE)
      [] b.k = "P" -> IF IsRef(b) THEN AddNode(st, "R", FALSE) ELSE AddNode(st, "L", TRUE)
      [] b.k = "Rule" -> AddNode(st, "HR", FALSE)
      [] b.k = "Tbl" -> AddNode(st, "T", FALSE)
      [] IsList(b) ->
            IF \A i \in 1..Len(b.items) : b.items[i] = <<>> THEN st         \* only empty items: carries nothing
            ELSE LET s1 == SetIns(AddNode(st, b.k, FALSE), TRUE)
                     s2 == Items(s1, b.items, 1)
                 IN  IF "list-insert-left-on" \in Slip THEN SetId(s2, s1.cur) ELSE SetIns(SetId(s2, s1.cur), FALSE)
      [] b.k = "Q" ->
            \* a quote is built by a builder of its own standing on the quote node, in insert mode
            LET s1 == AddNode(st, "Q", FALSE)
                inner == ProcessBlocks([ns |-> s1.ns, cur |-> s1.cur, ins |-> TRUE], b.c, 1, Len(b.c) + 1)
            IN  [ns |-> inner.ns, cur |-> s1.cur, ins |-> FALSE]
      [] OTHER -> [st EXCEPT !.ns = Append(@, Nd("PANIC", None, FALSE))]    \* a heading never reaches block()

\* append_blocks(lo..hi): like process_blocks, but continuing the sibling chain of the current node
\* (slip "append-flat": every heading after the leading list becomes a flat sibling, whatever its level)
AppendBlocks(st, bs, lo, hi) ==
    IF lo >= hi THEN st
    ELSE IF "append-flat" \in Slip THEN AppendFrom(st, bs, lo, hi, FirstHeader(bs, lo, hi))
    ELSE PlaceBlocks(SetIns(st, FALSE), bs, lo, hi)
AppendFrom(st, bs, i, hi, fh) ==
    IF i >= hi THEN st
    ELSE LET s0 == SetIns(st, FALSE)
             s1 == IF i >= fh /\ bs[i].k = "H" THEN SectionBlock(s0, bs[i]) ELSE Block(s0, bs[i])
         IN  AppendFrom(s1, bs, i + 1, hi, fh)

\* Graph::from_markdown: the Document node, then process_blocks over the whole document
Build(doc) == ProcessBlocks([ns |-> <<Nd("D", None, FALSE)>>, cur |-> 0, ins |-> TRUE], doc, 1, Len(doc) + 1).ns

(***************************************************************************)
(* What must hold of the arena a document builds (C20 at the builder, C01  *)
(* "nothing is lost" at the level of nodes)                                *)
(***************************************************************************)
Ids(ns) == 0..(Len(ns) - 1)
Referrers(ns, i) == {j \in Ids(ns) : At(ns, j).child = i \/ At(ns, j).next = i}

\* one place per node, and prev points back at it; nothing panicked
WellLinked(ns) ==
    /\ \A i \in Ids(ns) : At(ns, i).kind # "PANIC"
    /\ \A i \in Ids(ns) \ {0} : Cardinality(Referrers(ns, i)) = 1 /\ At(ns, i).prev \in Referrers(ns, i)
    /\ Referrers(ns, 0) = {}

\* pre-order walk from node id: <<kind, text?, depth in lists and quotes, depth in sections since the container>>
RECURSIVE WalkSeq(_, _, _, _)
WalkSeq(ns, id, d, sd) ==
    IF id = None THEN <<>>
    ELSE LET n == At(ns, id)
             below == IF n.kind \in {"BL", "OL", "Q"} THEN WalkSeq(ns, n.child, d + 1, 0)
                      ELSE IF n.kind = "S" THEN WalkSeq(ns, n.child, d, sd + 1)
                      ELSE <<>>
         IN  <<<<n.kind, n.txt, d, sd>>>> \o below \o WalkSeq(ns, n.next, d, sd)

\* the same sequence read off the document, with the documented rules: a paragraph or heading that is the
\* first block of an item is the item's text (a section), other paragraphs are leaves, a heading is a section;
\* an item that starts with another block gets an empty text first; a list of empty items carries nothing;
\* an item that starts with a list is merged into the enclosing list (the inner list adds no node and no depth).
\* Section depth: the blocks of one container (the document, the content of a quote, what follows the text of
\* an item) form an outline of their own; when its heading levels are well nested (none above the first, none
\* skipping a level) a heading of level l lies l - first sections deep and every other block lies directly
\* under the heading before it.
RECURSIVE DocSeq(_, _), ItemsSeq(_, _, _), ItemSeq(_, _), Rest(_, _, _, _, _)
Tag(b, d, sd) == CASE b.k = "H" -> <<"S", TRUE, d, sd>>
                   [] b.k = "P" -> IF IsRef(b) THEN <<"R", FALSE, d, sd>> ELSE <<"L", TRUE, d, sd>>
                   [] b.k = "Code" -> <<"Raw", FALSE, d, sd>>
                   [] b.k = "Rule" -> <<"HR", FALSE, d, sd>>
                   [] b.k = "Tbl" -> <<"T", FALSE, d, sd>>
                   [] OTHER -> <<b.k, FALSE, d, sd>>

Max(S) == CHOOSE x \in S : \A y \in S : x >= y
\* section depth of block i of the container sequence that starts at i0 with base depth d0
SDepth(bs, i0, i, d0) ==
    LET hs == {j \in i0..Len(bs) : bs[j].k = "H"}
        before == {j \in hs : j < i}
        first == bs[Min(hs)].l
    IN  IF bs[i].k = "H" THEN d0 + (bs[i].l - first)
        ELSE IF before = {} THEN d0
        ELSE d0 + (bs[Max(before)].l - first) + 1

Rest(bs, i0, i, d, d0) ==
    IF i > Len(bs) THEN <<>>
    ELSE LET b == bs[i]
             t == Tag(b, d, SDepth(bs, i0, i, d0))
         IN  (IF b.k = "Q" THEN <<t>> \o DocSeq(b.c, d + 1)
              ELSE IF IsList(b) THEN (IF \A j \in 1..Len(b.items) : b.items[j] = <<>> THEN <<>>
                                       ELSE <<t>> \o ItemsSeq(b.items, 1, d + 1))
              ELSE <<t>>)
             \o Rest(bs, i0, i + 1, d, d0)
DocSeq(bs, d) == Rest(bs, 1, 1, d, 0)
ItemsSeq(items, i, d) == IF i > Len(items) THEN <<>> ELSE ItemSeq(items[i], d) \o ItemsSeq(items, i + 1, d)
\* one item at list depth d (its blocks stand at depth d, one section deep: under the item's text)
ItemSeq(it, d) ==
    IF it = <<>> THEN <<>>
    ELSE IF it[1].k \in {"P", "H"} THEN <<<<"S", TRUE, d, 0>>>> \o Rest(it, 2, 2, d, 1)
    ELSE IF IsList(it[1])
         THEN LET inner == ItemsSeq(it[1].items, 1, d)
              IN  IF inner = <<>> THEN ItemSeq(SubSeq(it, 2, Len(it)), d) ELSE inner \o Rest(it, 2, 2, d, 1)
    ELSE <<<<"S", FALSE, d, 0>>>> \o Rest(it, 1, 1, d, 1)

\* the heading levels of every container are well nested
RECURSIVE AllWN(_, _), ItemWN(_)
SeqWN(bs, i0) ==
    LET hs == {j \in i0..Len(bs) : bs[j].k = "H"}
    IN  \A j \in hs : /\ bs[j].l >= bs[Min(hs)].l
                       /\ LET before == {k \in hs : k < j} IN (before # {} => bs[j].l <= bs[Max(before)].l + 1)
AllWN(bs, i0) ==
    /\ SeqWN(bs, i0)
    /\ \A i \in i0..Len(bs) : /\ (bs[i].k = "Q" => AllWN(bs[i].c, 1))
                               /\ (IsList(bs[i]) => \A j \in 1..Len(bs[i].items) : ItemWN(bs[i].items[j]))
ItemWN(it) ==
    IF it = <<>> THEN TRUE
    ELSE IF it[1].k \in {"P", "H"} THEN AllWN(it, 2)
    ELSE IF IsList(it[1])
         THEN /\ \A j \in 1..Len(it[1].items) : ItemWN(it[1].items[j])
              /\ IF ItemsSeq(it[1].items, 1, 0) = <<>> THEN ItemWN(SubSeq(it, 2, Len(it))) ELSE AllWN(it, 2)
    ELSE AllWN(it, 1)

NoSD(w) == [i \in 1..Len(w) |-> <<w[i][1], w[i][2], w[i][3]>>]

BuiltAsDocumented(doc) ==
    LET ns == Build(doc)
    IN  /\ WellLinked(ns)
        /\ LET w == WalkSeq(ns, At(ns, 0).child, 0, 0) d == DocSeq(doc, 0)
           IN  IF AllWN(doc, 1) THEN w = d ELSE NoSD(w) = NoSD(d)
=============================================================================
