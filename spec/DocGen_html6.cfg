\* dropped raw HTML and code in lists and quotes, <= 6 nodes (items whose leading blocks write nothing, then a list)
SPECIFICATION Spec
CONSTANTS
  LeafKinds <- HtmlOnly
  ContKinds <- QuoteConts
  MaxNodes = 6
  MaxDepth = 3
INVARIANT Emit
CHECK_DEADLOCK FALSE
