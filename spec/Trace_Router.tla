---------------------------- MODULE Trace_Router ----------------------------
(***************************************************************************)
(* Trace validation: every execution recorded from the real Router (hook   *)
(* points of crates/iwes/src/router/verif.rs plus what the client sent and *)
(* received) must be a behaviour of Router.tla with Design = "wait" and    *)
(* Catch = TRUE.  One recorded line = one action of Router.tla (or a named *)
(* composition of two where the code gives a single hook point), with the  *)
(* logged fields bound to the model's variables:                           *)
(*                                                                         *)
(*   SendReq r key cls   ClientSendReq(key, cls)        nextReq = r        *)
(*   SendNot n key       ClientSendNot(key)             nextNot = n        *)
(*   ReqTaken r          LoopTakeReq(r)                 FIFO: r is at the  *)
(*                                                      head of the inbox  *)
(*   Gate WStart r       first statement of on_request: no state change,   *)
(*                       or LoopTakeReq(r) if recorded before ReqTaken r   *)
(*   Gate WComputed r    WCompute(r)                                       *)
(*   Gate WReturn r      WRespond(r), or WPanic(r) ; WRespondError(r) when *)
(*                       the handler did not get to WComputed              *)
(*   Resp r seen err     (the client read the response) err = an error was *)
(*                       written; seen = the version the worker read       *)
(*   WGone r             WExit(r) (the worker's thread is gone)            *)
(*   NotifBegin          LoopTakeNotif(n), n at the head of the inbox      *)
(*   NotifWaiting        (the loop saw Arc > 1; no state change)           *)
(*   NotifDone           LoopApply(n): needs Arc = 1.  The harness sees a  *)
(*                       thread disappear later than the loop does, so     *)
(*                       workers that have responded may exit silently     *)
(*                       here; a worker that has not responded cannot      *)
(*   Final key ver       server[key] = ver (read back through a request)   *)
(*   LoopExit            ClientSendExit ; LoopTakeExit                     *)
(*   Reset               a new server                                      *)
(*   LoopPanic           no action of the repaired design: rejected        *)
(* Requests with id >= 1000 are the harness's own probes after quiescence. *)
(* Router's invariants are checked in every state of the trace.            *)
(***************************************************************************)
EXTENDS Router, Json, IOUtils

Rec == ndJsonDeserialize(IOEnv.TRACE)
VARIABLE l
tvars == <<vars, l>>

Probe(e) == "r" \in DOMAIN e /\ e.r >= 1000

Line(name) == l <= Len(Rec) /\ Rec[l].ev = name /\ l' = l + 1
Gate(name) == l <= Len(Rec) /\ Rec[l].ev = "Gate" /\ Rec[l].at = name /\ l' = l + 1

Stutter == UNCHANGED vars

TInit == Init /\ l = 1

TReset == /\ Line("Reset")
          /\ inbox' = <<>> /\ nextReq' = 1 /\ nextNot' = 1
          /\ reqKey' = [r \in Req |-> CHOOSE k \in Keys : TRUE]
          /\ reqClass' = [r \in Req |-> "ok"]
          /\ notKey' = [n \in Not |-> CHOOSE k \in Keys : TRUE]
          /\ loop' = <<"idle", 0>>
          /\ wpc' = [r \in Req |-> "unsent"]
          /\ server' = [k \in Keys |-> 0]
          /\ wSeen' = [r \in Req |-> -1]
          /\ responses' = [r \in Req |-> 0]
          /\ errors' = [r \in Req |-> 0]
          /\ dropped' = {} /\ applied' = {}
          /\ sentBefore' = [r \in Req |-> 0]
          /\ lastSent' = [k \in Keys |-> 0]
          /\ exitSent' = FALSE

TSendReq == /\ Line("SendReq") /\ ~Probe(Rec[l])
            /\ nextReq = Rec[l].r
            /\ ClientSendReq(Rec[l].key, Rec[l].cls)

TSendNot == /\ Line("SendNot")
            /\ nextNot = Rec[l].n
            /\ ClientSendNot(Rec[l].key)

\* The hook point ReqTaken is reached after thread::spawn, so the worker's first point (WStart)
\* may be recorded before it: whichever of the two comes first is the evidence of the spawn.
TReqTaken == /\ Line("ReqTaken") /\ ~Probe(Rec[l])
             /\ IF wpc[Rec[l].r] = "queued" THEN LoopTakeReq(Rec[l].r)
                ELSE wpc[Rec[l].r] # "unsent" /\ Stutter

TWStart == /\ Gate("WStart") /\ ~Probe(Rec[l])
           /\ IF wpc[Rec[l].r] = "queued" THEN LoopTakeReq(Rec[l].r)
              ELSE wpc[Rec[l].r] = "spawned" /\ Stutter

TWComputed == /\ Gate("WComputed") /\ ~Probe(Rec[l])
              /\ WCompute(Rec[l].r)

\* a handler that panics is caught inside on_request: the hook sees a normal return
PanicAndRespond(r) ==
    /\ wpc[r] = "spawned"
    /\ reqClass[r] \in {"panic", "unknown"}
    /\ responses' = [responses EXCEPT ![r] = @ + 1]
    /\ errors' = [errors EXCEPT ![r] = @ + 1]
    /\ wpc' = [wpc EXCEPT ![r] = "responded"]
    /\ UNCHANGED <<inbox, nextReq, nextNot, reqKey, reqClass, notKey, loop, server, wSeen,
                   dropped, applied, sentBefore, lastSent, exitSent>>

TWReturn == /\ Gate("WReturn") /\ ~Probe(Rec[l])
            /\ (WRespond(Rec[l].r) \/ PanicAndRespond(Rec[l].r))

TResp == /\ Line("Resp") /\ ~Probe(Rec[l])
         /\ LET e == Rec[l] IN
            /\ responses[e.r] >= 1
            /\ e.err = (errors[e.r] > 0)
            /\ (~e.err /\ reqClass[e.r] = "ok") => wSeen[e.r] = e.seen
         /\ Stutter

TWGone == /\ Line("WGone") /\ ~Probe(Rec[l])
          /\ IF wpc[Rec[l].r] = "exited" THEN Stutter ELSE WExit(Rec[l].r)

TNotifBegin == /\ Line("NotifBegin")
               /\ inbox # <<>> /\ Head(inbox)[1] = "not"
               /\ LoopTakeNotif(Head(inbox)[2])

TNotifWaiting == Line("NotifWaiting") /\ loop[1] = "notif" /\ Stutter

\* LoopApply after the silent exit of the workers that have already responded
TNotifDone ==
    /\ Line("NotifDone")
    /\ loop[1] = "notif"
    /\ \A r \in Req : wpc[r] \notin {"spawned", "computed", "panicking"}
    /\ LET n == loop[2] IN
       /\ wpc' = [r \in Req |-> IF wpc[r] = "responded" THEN "exited" ELSE wpc[r]]
       /\ server' = [server EXCEPT ![notKey[n]] = n]
       /\ applied' = applied \cup {n}
       /\ loop' = <<"idle", 0>>
       /\ UNCHANGED <<inbox, nextReq, nextNot, reqKey, reqClass, notKey, wSeen, responses,
                      errors, dropped, sentBefore, lastSent, exitSent>>

TFinal == /\ Line("Final")
          /\ server[Rec[l].key] = Rec[l].ver
          /\ Stutter

TLoopExit == /\ Line("LoopExit")
             /\ loop = <<"idle", 0>> /\ inbox = <<>>
             /\ loop' = <<"exited", 0>> /\ exitSent' = TRUE
             /\ UNCHANGED <<inbox, nextReq, nextNot, reqKey, reqClass, notKey, wpc, server, wSeen, responses,
                            errors, dropped, applied, sentBefore, lastSent>>

\* lines that carry no action of the model
TOther == /\ l <= Len(Rec)
          /\ \/ Rec[l].ev \in {"Quiescent", "Exit", "End", "Dwell", "Refs", "WarmupDone", "Note", "RouterNew", "Other"}
             \/ Rec[l].ev \in {"SendReq", "ReqTaken", "Resp", "WGone", "Gate"} /\ Probe(Rec[l])
          /\ l' = l + 1
          /\ Stutter

TNext == TReset \/ TSendReq \/ TSendNot \/ TReqTaken \/ TWStart \/ TWComputed \/ TWReturn \/ TResp \/ TWGone
         \/ TNotifBegin \/ TNotifWaiting \/ TNotifDone \/ TFinal \/ TLoopExit \/ TOther

TSpec == TInit /\ [][TNext]_tvars

\* Router's safety properties, evaluated on every state the trace passes through
TraceInv == NoLostNotification /\ AtMostOneResponse /\ ReadYourWrites /\ LoopSurvives

Accepted == IF TLCGet("stats").diameter - 1 = Len(Rec) THEN PrintT(<<"ACCEPTED", Len(Rec)>>)
            ELSE PrintT(<<"REJECTED", ToJson([consumed |-> TLCGet("stats").diameter - 1, total |-> Len(Rec),
                                              line |-> IF TLCGet("stats").diameter <= Len(Rec) THEN Rec[TLCGet("stats").diameter] ELSE [ev |-> "none"]])>>)
=============================================================================
