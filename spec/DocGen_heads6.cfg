\* all heading-level / paragraph sequences of length <= 6
SPECIFICATION Spec
CONSTANTS
  LeafKinds <- HeadLeaves
  ContKinds <- NoConts
  MaxNodes = 6
  MaxDepth = 0
INVARIANT Emit
CHECK_DEADLOCK FALSE
