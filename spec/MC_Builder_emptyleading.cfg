\* TEETH: TLC must reject this configuration (a leading list of empty items not noticed)
\* every document of <= 5 nodes over paragraphs, headings, code, references, empty items, lists and quotes (depth <= 3)
SPECIFICATION SpecB
CONSTANTS
  Slip <- SlipEmptyLeading
  LeafKinds <- BLeaves
  ContKinds <- BConts
  MaxNodes = 5
  MaxDepth = 2
INVARIANT Built
CHECK_DEADLOCK FALSE
