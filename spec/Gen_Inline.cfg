SPECIFICATION Spec
CONSTANT Pairs = TRUE
INVARIANT Emit
CHECK_DEADLOCK FALSE
