SPECIFICATION MSpec
CONSTANTS
  MaxLen = 6
  MaxLevel = 6
INVARIANT KeepsRelativeOrderOfLevels
CHECK_DEADLOCK FALSE
