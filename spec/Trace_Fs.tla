------------------------------ MODULE Trace_Fs ------------------------------
(***************************************************************************)
(* Syscall traces of the real `iwe normalize` (strace) validated as        *)
(* behaviours of Fs.tla: implementation -> specification at the            *)
(* implementation-shaped level.  One event per mutating system call on a   *)
(* path under the library:  open_w / write / close / rename / unlink /     *)
(* chmod, with the note the path belongs to and whether the path is the    *)
(* note itself or its temp sibling, plus Start, Exit(outcome) and Reset    *)
(* between runs.  Every invariant of Fs is checked at every step.          *)
(* The number of write() calls a file will take is not logged: TLC infers  *)
(* it (the n of Open(f, n)).                                               *)
(***************************************************************************)
EXTENDS Fs, Json, IOUtils, TLCExt

Rec == ndJsonDeserialize(IOEnv.TRACE)

\* the tree of this trace: line 1 is {"ev":"Reset","notes":[...],"mdmd":[...]}
TNotes == {Rec[1].notes[i] : i \in 1..Len(Rec[1].notes)}
TMdMd == {Rec[1].mdmd[i] : i \in 1..Len(Rec[1].mdmd)}
TOthers == {}

VARIABLE l
tvars == <<vars, l>>

Ev == Rec[l]
Is(op) == l <= Len(Rec) /\ Ev.ev = op /\ l' = l + 1

TInit == Init /\ l = 1

TReset == /\ Is("Reset")
          /\ disk' = [p \in Paths |-> IF p[1] = "file" THEN "old" ELSE "absent"]
          /\ pc' = "read" /\ todo' = {} /\ cur' = <<>> /\ wrote' = {}

TStart == Is("Start") /\ ReadAll

\* open for writing of the file the protocol writes first (temp sibling or the note)
TOpen == /\ Is("open_w")
         /\ \E n \in 1..MaxChunks : Open(Ev.note, n)
         /\ Ev.role = (IF Protocol = "tmprename" THEN "tmp" ELSE "note")

TOpenFails == Is("open_w_failed") /\ OpenFails(Ev.note)

TWrite == /\ Is("write") /\ cur # <<>> /\ cur[1] = Ev.note /\ WriteChunk

TClose == /\ Is("close") /\ cur # <<>> /\ cur[1] = Ev.note /\ Close

\* chmod of the temp file: not a step of the abstract protocol
TChmod == /\ Is("chmod") /\ cur # <<>> /\ cur[1] = Ev.note /\ Ev.role = "tmp" /\ UNCHANGED vars

TRename == /\ Is("rename") /\ cur # <<>> /\ cur[1] = Ev.note /\ Rename

\* a failing call: the error path (remove the temp file) follows as "unlink"
\* (an error returned by close() is not seen by the code: std::fs::File drops the
\* descriptor without looking at the result, so the protocol simply goes on)
TFail == /\ Is("failed_call") /\ cur # <<>> /\ cur[1] = Ev.note
         /\ IF cur[2] = "close" THEN Close ELSE Fail
TUnlink == /\ Is("unlink") /\ Ev.role = "tmp" /\ pc = "failed" /\ UNCHANGED vars
\* on the error path the descriptor is closed before the temp file is removed; Fail
\* already stands for "the call fails and the temp file is cleaned up"
TCloseAfterFail == /\ Is("close") /\ Ev.role = "tmp" /\ pc = "failed" /\ UNCHANGED vars

TExit == /\ Is("Exit")
         /\ \/ Ev.outcome = "done" /\ Finish
            \/ Ev.outcome = "failed" /\ pc = "failed" /\ UNCHANGED vars
            \/ Ev.outcome = "killed" /\ Kill

TNext == TReset \/ TStart \/ TCloseAfterFail \/ TOpen \/ TOpenFails \/ TWrite \/ TClose \/ TChmod \/ TRename \/ TFail \/ TUnlink \/ TExit

TSpec == TInit /\ [][TNext]_tvars

Accepted ==
    IF TLCGet("stats").diameter - 1 = Len(Rec)
    THEN PrintT(<<"ACCEPTED", Len(Rec)>>)
    ELSE PrintT(<<"REJECTED", ToJson([matched |-> TLCGet("stats").diameter - 1, of |-> Len(Rec)])>>)
=============================================================================
