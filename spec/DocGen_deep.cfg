\* sampled by -simulate: up to 12 nodes, depth <= 4, full alphabet
SPECIFICATION Spec
CONSTANTS
  LeafKinds <- FullLeaves
  ContKinds <- AllConts
  MaxNodes = 12
  MaxDepth = 4
INVARIANT Emit
CHECK_DEADLOCK FALSE
