------------------------------ MODULE Gen_Pos ------------------------------
(***************************************************************************)
(* C13 universe: P leading lines of up to 2 characters of any class, up to *)
(* MaxPrefix characters of any class before the link, line endings LF,     *)
(* CRLF, or mixed (CRLF up to the link line and LF after, or the other way *)
(* round: a pasted block in a file of the other convention).  Every        *)
(* case carries the truth computed by Pos.tla: which (line, character)     *)
(* positions lie inside the link, the range of its url, and the lines of   *)
(* the heading, the reference and the list item.                           *)
(***************************************************************************)
EXTENDS Pos, Json

CONSTANTS MaxLead, MaxPrefix

Cls == {"a", "e", "j", "x"}
Strs(n) == UNION {[1..m -> Cls] : m \in 0..n}

VARIABLES lead, prefix, suffix, crlf, ending, ltext, wrap, eof, done
vars == <<lead, prefix, suffix, crlf, ending, ltext, wrap, eof, done>>
Init == lead = <<>> /\ prefix = <<>> /\ suffix = <<>> /\ crlf = FALSE /\ ending = "lf" /\ ltext = <<"a">> /\ wrap = "none" /\ eof = TRUE /\ done = FALSE

\* leading lines all share one content (their content only matters through its bytes)
Main == /\ ~done
        /\ \E p \in 0..MaxLead, c \in Strs(1), pf \in Strs(MaxPrefix), sf \in Strs(1), nl \in {"lf", "crlf", "crlf-lf", "lf-crlf"} :
             /\ lead' = [i \in 1..p |-> <<"a">> \o c]
             /\ prefix' = pf /\ suffix' = sf /\ crlf' = (nl = "crlf") /\ ending' = nl /\ done' = TRUE
        /\ ltext' = <<"a">> /\ wrap' = "none" /\ eof' = TRUE

\* the link's own text in every character class, the link in a paragraph of two lines (a cursor on the
\* other line of the block, at the link's columns, is not on the link), the text with and without a
\* final newline (eof = TRUE: with)
InLinkAndWrapped ==
        /\ ~done
        /\ \E p \in 0..1, pf \in Strs(1), nl \in {"lf", "crlf"}, lt \in {<<"a">>, <<"e">>, <<"j">>, <<"x">>, <<"e", "x">>},
              w \in {"none", "after", "before"}, nl_at_end \in BOOLEAN :
             /\ lead' = [i \in 1..p |-> <<"a">>]
             /\ prefix' = pf /\ suffix' = <<>> /\ crlf' = (nl = "crlf") /\ ending' = nl /\ done' = TRUE
             /\ ltext' = lt /\ wrap' = w /\ eof' = nl_at_end

Next == Main \/ InLinkAndWrapped
Spec == Init /\ [][Next]_vars

P == Len(lead)
Case == [lead |-> lead, prefix |-> prefix, suffix |-> suffix, crlf |-> crlf, ending |-> ending, ltext |-> ltext, wrap |-> wrap,
         head_line |-> HeadLine(P), link_line |-> LinkLineW(P, wrap), block_line |-> HeadLine(P) + 2, ref_line |-> RefLineW(P, wrap), item_line |-> ItemLineW(P, wrap),
         link_start |-> LinkStart(prefix), link_end |-> LinkEndT(prefix, ltext), url_start |-> UrlStartT(prefix, ltext),
         url_end |-> UrlEndT(prefix, ltext), j_line |-> JLineW(P, wrap), k_line |-> KLineW(P, wrap), k2_line |-> K2LineW(P, wrap), quote_line |-> QuoteLineW(P, wrap),
         wiki_line |-> WikiLineW(P, wrap), maxch |-> IF LinkEndT(prefix, ltext) + 6 > 18 THEN LinkEndT(prefix, ltext) + 6 ELSE 18,
         table_line |-> TableLineW(P, wrap), cell_line |-> CellLineW(P, wrap), z_line |-> ZLineW(P, wrap), y_line |-> YLineW(P, wrap),
         eof |-> eof, last_line |-> YLineW(P, wrap)]

Emit == done => PrintT(<<"CASE", ToJson(Case)>>)

\* EXPECTED TO FAIL for the position arithmetic of the pinned commit
PinnedDesignOK == done => ImplAgreesWithTruth(P, lead, prefix, crlf)
=============================================================================
