----------------------------- MODULE MC_DocImpl -----------------------------
(* every block sequence of one container up to MaxLen: C07 over DocImpl!Predict *)
EXTENDS DocImpl, TLC
CONSTANTS MaxLen, MaxLevel
VARIABLE c
MInit == c = <<>>
MNext == Len(c) < MaxLen /\ \E x \in 0..MaxLevel : c' = Append(c, x)
MSpec == MInit /\ [][MNext]_c
Holds == C07OnPredict(c)
\* teeth: the splitter does NOT keep source levels in general (3,1,2 is written 1,1,1) ...
KeepsRelativeOrderOfLevels == \A i, j \in Headings(c) : (i < j /\ c[i] < c[j] /\ \A m \in Headings(c) : (i < m /\ m < j) => c[m] > c[i])
                                                         => Depth(c)[i] < Depth(c)[j]
=============================================================================
