---------------------------- MODULE Trace_Squash ----------------------------
(***************************************************************************)
(* Judge for C17: the bag of texts and kept links of the squashed tree     *)
(* (Graph::squash) and of the Markdown written from it (the CLI route:     *)
(* build_key_from_iter + export) against Lib!SquashBag(docs, root, depth). *)
(* A run that did not come back within the budget (proportional to the     *)
(* size Lib predicts) is recorded as res = "hang".                         *)
(***************************************************************************)
EXTENDS Lib, Integers, Json, IOUtils

Rec == ndJsonDeserialize(IOEnv.TRACE)
VARIABLE l
Init == l = 1

DocsOf(e) == [k \in {d.key : d \in Range(e.docs)} |-> (CHOOSE d \in Range(e.docs) : d.key = k).note]

\* observed bag: sequence of [kind, v, n]
ObsBag(s) == [x \in {<<i.kind, i.v>> : i \in Range(s)} |-> (CHOOSE i \in Range(s) : <<i.kind, i.v>> = x).n]

BagDiff(exp, obs) ==
    {<<"count", x, IF x \in DOMAIN exp THEN exp[x] ELSE 0, IF x \in DOMAIN obs THEN obs[x] ELSE 0>> :
        x \in {y \in DOMAIN exp \cup DOMAIN obs : (IF y \in DOMAIN exp THEN exp[y] ELSE 0) # (IF y \in DOMAIN obs THEN obs[y] ELSE 0)}}

Reasons(e) ==
    IF e.res # "ok" THEN {<<"did-not-finish", e.res>>}
    ELSE LET exp == SquashBag(DocsOf(e), e.root, e.depth)
         IN  {<<"tree", d>> : d \in BagDiff(exp, ObsBag(e.tree_bag))}
             \cup {<<"markdown", d>> : d \in BagDiff(exp, ObsBag(e.md_bag))}
             \* every section of the expansion is written with a heading marker, however deep it lies
             \cup (IF "tree_sections" \in DOMAIN e /\ e.tree_sections # e.md_heading_lines
                   THEN {<<"heading-marks", e.tree_sections, e.md_heading_lines>>} ELSE {})
             \* the command line tool prints exactly this expansion, however many other notes the library holds
             \cup (IF "cli" \in DOMAIN e /\ e.cli \in {"differs", "failed"} THEN {<<"iwe-squash-" \o e.cli>>} ELSE {})

Step == /\ l <= Len(Rec) /\ l' = l + 1
        /\ LET e == Rec[l] IN
           IF e.ev = "Squash" /\ Reasons(e) # {}
           THEN PrintT(<<"VERDICT", ToJson([case |-> e.case, depth |-> e.depth, bad |-> Reasons(e)])>>)
           ELSE TRUE
Spec == Init /\ [][Step]_l
Accepted == IF TLCGet("stats").diameter - 1 = Len(Rec) THEN PrintT(<<"ACCEPTED", Len(Rec)>>)
            ELSE PrintT(<<"UNCONSUMED", TLCGet("stats").diameter, Len(Rec)>>) /\ FALSE
=============================================================================
