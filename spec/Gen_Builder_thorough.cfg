\* generator: every document of <= 5 nodes (also rules, tables and ordered lists), printed for the builder binding (vh builder-replay, Trace_Builder)
SPECIFICATION SpecB
CONSTANTS
  Slip <- NoSlip
  LeafKinds <- BLeavesAll
  ContKinds <- BContsOL
  MaxNodes = 5
  MaxDepth = 2
INVARIANT EmitB
CHECK_DEADLOCK FALSE
