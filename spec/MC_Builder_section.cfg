\* TEETH: TLC must reject this configuration (insert mode left on after the blocks of a section)
\* every document of <= 5 nodes over paragraphs, headings, code, references, empty items, lists and quotes (depth <= 3)
SPECIFICATION SpecB
CONSTANTS
  Slip <- SlipSection
  LeafKinds <- BLeaves
  ContKinds <- BConts
  MaxNodes = 5
  MaxDepth = 2
INVARIANT Built
CHECK_DEADLOCK FALSE
