SPECIFICATION Spec
CONSTANT Pairs = FALSE
INVARIANT Emit
CHECK_DEADLOCK FALSE
