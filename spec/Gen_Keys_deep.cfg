SPECIFICATION Spec
CONSTANTS
  Segs <- S3
  MaxDepth = 5
  MaxUp = 3
INVARIANTS DesignOK Emit
CHECK_DEADLOCK FALSE
