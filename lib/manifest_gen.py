#!/usr/bin/env python3
"""regenerates MANIFEST.json from the table below (single source of truth for the interface)"""
import json, os
V = os.path.dirname(os.path.dirname(os.path.abspath(__file__)))

HOOK_COMMITS = [
    "62acf4169a33b566a8d6bbdbccd9015e782c2387",
    "766e586746e56b48ff37bc40f71355c521c31da6",
    "d0de46fcf0102fcd8965e084e915fb7762cdf11b",
]

CHECKS = {
 "C11": dict(engine="E-router", cat="model_checking", design="DESIGN.md §10 C11",
   text="TLC checks the implementation-shaped Router spec exhaustively (all interleavings of loop and workers for 3 requests x 3 notifications, safety; 2x2 with liveness under fairness) and generates every schedule of the small config; each schedule is replayed on the real router through pause hooks and the recorded behaviour is judged by TLC (Trace_RouterIdeal) against the property in its own words. Bounded, but exhaustive within the bounds, and bound to the code in both directions.",
   note="trusts the hook points to mark the real program points, /proc/self/task for thread exit, and the in-memory LSP connection; bounds: <=4 requests, <=3 notifications, 2 notes",
   tech="TLA+ spec of loop/worker interleavings model-checked with TLC; TLC-generated schedules replayed through pause hooks; TLC trace validation of recorded behaviours"),
 "C12": dict(engine="E-router", cat="model_checking", design="DESIGN.md §10 C12",
   text="TLC enumerates every sequence of length <=2 over the full request alphabet (every advertised method x parameter classes incl. unknown files, out-of-range positions, dangling references, stale/foreign/absent code-action ids, unknown method, executeCommand, shutdown) plus all worker/loop schedules with panicking requests; each is run against a fresh real server with a probe afterwards, and TLC judges the recorded responses (exactly one per request, probe answered correctly, clean exit). The Router spec is model-checked for AtMostOneResponse / ExactlyOneResponseWhenQuiescent and liveness.",
   note="a missing response is established after the worker thread has ended (no timing); parameter values are classes chosen from reading the handlers, not all JSON values",
   tech="TLC-enumerated request sequences and schedules run on the real server; TLC trace validation; TLC model checking of Router.tla"),
}

NOT_APPLICABLE = {}

def main():
    props = [json.loads(l)["id"] for l in open(os.path.join(V, "properties.jsonl"))]
    checks = []
    for pid in props:
        if pid not in CHECKS:
            continue
        c = CHECKS[pid]
        checks.append({
            "property_id": pid,
            "quick_cmd": "./check %s --tier quick" % pid,
            "thorough_cmd": "./check %s --tier thorough" % pid,
            "evidence_file": "/verif/evidence/%s.json" % pid,
            "replay_cmd_template": "./check %s --replay {path}" % pid,
            "engine": c["engine"],
            "level_claimed": {"category": c["cat"], "text": c["text"], "design_ref": c["design"]},
            "level_note": c["note"],
            "technique": c["tech"],
        })
    na = []
    for pid in props:
        if pid not in CHECKS:
            na.append({"property_id": pid, "reason": NOT_APPLICABLE.get(pid, "check not built yet in this round (see DESIGN.md Appendix C build order); not claimed")})
    m = {
        "version": 1,
        "setup_cmd": "./setup.sh",
        "hooks": {
            "guard": "cfg(iwe_verif)",
            "enable": "RUSTFLAGS --cfg iwe_verif via /verif/harness/.cargo/config.toml; the harness depends on /repo/crates/{liwe,iwes} by path, so every check rebuilds from /repo's working tree",
            "baseline_off_cmd": "cd /repo && cargo test --workspace --no-fail-fast --offline",
            "source_commits": HOOK_COMMITS,
            "add_only": True,
        },
        "engines": [
            {"name": "E-router", "path": "spec/Router.tla spec/Gen_Router.tla spec/Gen_Requests.tla spec/Trace_RouterIdeal.tla harness/src/router.rs lib/router.py",
             "serves_properties": ["C11", "C12"], "kind_free_text": "TLA+ model of the message loop and workers; TLC model checking, schedule generation, replay through hooks, TLC trace validation"},
        ],
        "checks": checks,
        "not_applicable": na,
        "notes": "exit 0 = held (KNOWN-FINDING lines allowed), 1 = VIOLATION line, 2 = tool error. known findings: /verif/known_findings.json",
    }
    json.dump(m, open(os.path.join(V, "MANIFEST.json"), "w"), indent=1)
    print("MANIFEST.json: %d checks, %d not_applicable" % (len(checks), len(na)))

if __name__ == "__main__":
    main()
