"""E-addr: C15 (relative links resolve back), C14 (file / uri / key), C13 (positions)."""
import json, os, shutil
from common import *


def check_c15(tier):
    pid = "C15"
    work = workdir(pid)
    res = Result(pid, tier, "model_checking")
    vh = build_harness()
    cfg = "Gen_Keys_thorough.cfg" if tier == "quick" else "Gen_Keys_deep.cfg"
    g = tlc("MC_Gen_Keys.tla", cfg, os.path.join(work, "gen"), workers=8, timeout=1800, heap="8g")
    if "is violated" in g["out"]:
        p = save_replay(work, "design", {"tlc": g["out"][-4000:]})
        res.violation(p, "TLC: the ideal key algebra of Keys.tla violates RoundTrip / StableRewrite")
    res.add_tlc("gen+design:" + cfg, g)
    cases = os.path.join(work, "cases.ndjson")
    n = write_prints(g["out"], "CASE", cases)
    if n == 0:
        raise ToolError("Gen_Keys produced nothing")
    ev = os.path.join(work, "events.ndjson")
    rc, out, _ = run([vh, "keys-replay", cases, ev], 1800)
    if rc != 0:
        raise ToolError("keys-replay failed: " + out[-2000:])
    r = tlc("Trace_Keys.tla", "Trace_Keys.cfg", os.path.join(work, "tr"), workers=1, timeout=1800, env={"TRACE": ev}, trace_mode=True,
            heap="6g")
    if '"ACCEPTED"' not in r["out"]:
        raise ToolError("Trace_Keys did not consume the trace:\n" + r["out"][-2000:])
    events = [json.loads(l) for l in open(ev)]
    for v in prints(r["out"], "VERDICT"):
        e = events[v["line"] - 1]
        p = save_replay(work, "C15_line%d" % v["line"], {"property": pid, "reasons": v["bad"], "event": e})
        res.violation(p, "%s d=%s %s" % (e["ev"], "/".join(e["d"]), json.dumps(v["bad"])[:200]))
    res.cov["traces_validated_against_impl"] = len(events)
    res.cov["evaluations"] = len(events)
    res.cov["distinct_nontrivial"] = n
    res.cov["by_route"] = {}
    for e in events:
        k = e.get("via", "Key::from_rel_link_url") if e["ev"] == "write" else "Key::from_rel_link_url + rewrite"
        res.cov["by_route"][k] = res.cov["by_route"].get(k, 0) + 1
    res.cov["samples"] = events[:2] + events[-2:]
    res.cov["exhaustive"] = True
    res.cov["rule"] = ("every (key, directory) pair and every (directory, url) pair of Gen_Keys (all paths up to the depth bound over the "
                       "segment alphabet; urls with .., ./ and .md) through Key::to_rel_link_url / from_rel_link_url, exported block "
                       "references and LSP completion items; TLC checks the design obligations on Keys.tla and judges every observation")
    res.assumptions.append("urls are parsed syntactically by the harness (split on '/', '..', '.', '.md'); resolution is done by TLC (Keys!Resolve)")
    return res.finish()


def check_c14(tier):
    pid = "C14"
    work = workdir(pid)
    res = Result(pid, tier, "model_checking")
    vh = build_harness()
    cfg = "Gen_Uri_quick.cfg" if tier == "quick" else "Gen_Uri_thorough.cfg"
    g = tlc("MC_Gen_Uri.tla", cfg, os.path.join(work, "gen"), workers=8, timeout=1800, heap="8g")
    if "is violated" in g["out"]:
        res.violation(save_replay(work, "design", {"tlc": g["out"][-4000:]}), "TLC: Uri.tla violates OneNote")
    res.add_tlc("gen+design:" + cfg, g)
    pinned = tlc("MC_Gen_Uri.tla", "Gen_Uri_pinned.cfg", os.path.join(work, "pinned"), workers=2, timeout=300)
    if "is violated" not in pinned["out"]:
        raise ToolError("Gen_Uri_pinned.cfg no longer fails: the spec lost its teeth")
    cases = os.path.join(work, "cases.ndjson")
    n = write_prints(g["out"], "CASE", cases)
    if n == 0:
        raise ToolError("Gen_Uri produced nothing")
    shards = 8
    scratch = os.path.join(work, "scratch")
    evs = [os.path.join(work, "ev.%d.ndjson" % i) for i in range(shards)]
    cmds = [[vh, "uri-replay", cases, evs[i], scratch, "--shard", "%d/%d" % (i, shards)] for i in range(shards)]
    for rc, out in parallel(cmds, 3000):
        if rc != 0:
            raise ToolError("uri-replay failed: " + out[-2000:])
    ev = os.path.join(work, "events.ndjson")
    with open(ev, "w") as f:
        for e in evs:
            f.write(open(e).read())
    shutil.rmtree(scratch, ignore_errors=True)
    r = tlc("Trace_Uri.tla", "Trace_Uri.cfg", os.path.join(work, "tr"), workers=1, timeout=1800, env={"TRACE": ev}, trace_mode=True,
            heap="6g")
    if '"ACCEPTED"' not in r["out"]:
        raise ToolError("Trace_Uri did not consume the trace:\n" + r["out"][-2000:])
    events = {}
    for l in open(ev):
        e = json.loads(l)
        events[e["case"]] = e
    for v in prints(r["out"], "VERDICT"):
        p = save_replay(work, "C14_case%d" % v["case"], {"property": pid, "reasons": v["bad"], "event": events.get(v["case"])})
        res.violation(p, "name=%s dir=%r base=%s %s" % (v["name"], v["dir"], v["base"], json.dumps(v["bad"])[:200]))
    res.cov["traces_validated_against_impl"] = len(events)
    res.cov["evaluations"] = len(events)
    res.cov["distinct_nontrivial"] = n
    res.cov["samples"] = list(events.values())[:3]
    res.cov["exhaustive"] = True
    res.cov["rule"] = ("every (file name as a sequence of <= MaxLen character classes out of 10, directory out of 4, base path out of 4) of "
                       "Gen_Uri is materialised on disk, loaded by a real server started on the path and addressed with URIs from "
                       "Url::from_file_path: completion count before/after a didChange, formatting, references, definition, symbols; "
                       "TLC checks the design obligation on Uri.tla and judges every observation (Trace_Uri)")
    res.assumptions.append("links to files are written in angle-bracket form [t](<dir/name>), the only CommonMark form for names with spaces")
    return res.finish()


def check_c13(tier):
    pid = "C13"
    work = workdir(pid)
    res = Result(pid, tier, "model_checking")
    vh = build_harness()
    cfg = "Gen_Pos_quick.cfg" if tier == "quick" else "Gen_Pos_thorough.cfg"
    g = tlc("Gen_Pos.tla", cfg, os.path.join(work, "gen"), workers=8, timeout=1800, heap="8g")
    res.add_tlc("gen:" + cfg, g)
    pinned = tlc("Gen_Pos.tla", "Gen_Pos_pinned.cfg", os.path.join(work, "pinned"), workers=2, timeout=300)
    if "is violated" not in pinned["out"]:
        raise ToolError("Gen_Pos_pinned.cfg no longer fails: the spec lost its teeth")
    cases = os.path.join(work, "cases.ndjson")
    n = write_prints(g["out"], "CASE", cases)
    if n == 0:
        raise ToolError("Gen_Pos produced nothing")
    shards = 12
    evs = [os.path.join(work, "ev.%d.ndjson" % i) for i in range(shards)]
    cmds = [[vh, "pos-replay", cases, evs[i], "--shard", "%d/%d" % (i, shards)] for i in range(shards)]
    for rc, out in parallel(cmds, 3000):
        if rc != 0:
            raise ToolError("pos-replay failed: " + out[-2000:])
    ev = os.path.join(work, "events.ndjson")
    with open(ev, "w") as f:
        for e in evs:
            f.write(open(e).read())
    r = tlc("Trace_Pos.tla", "Trace_Pos.cfg", os.path.join(work, "tr"), workers=1, timeout=1800, env={"TRACE": ev}, trace_mode=True,
            heap="6g")
    if '"ACCEPTED"' not in r["out"]:
        raise ToolError("Trace_Pos did not consume the trace:\n" + r["out"][-2000:])
    events = {}
    npos = 0
    for l in open(ev):
        e = json.loads(l)
        events[e["id"]] = e
        npos += (e["case"]["last_line"] + 2) * (e["case"]["link_end"] + 7)
    for v in prints(r["out"], "VERDICT"):
        e = events.get(v["id"], {})
        p = save_replay(work, "C13_case%d" % v["id"], {"property": pid, "reasons": v["bad"][:20], "case": e.get("case"), "text": e.get("text")})
        res.violation(p, "%s %s" % (json.dumps(e.get("text"))[:80], json.dumps(v["bad"])[:200]))
    res.cov["traces_validated_against_impl"] = len(events)
    res.cov["evaluations"] = npos
    res.cov["positions_probed"] = npos
    res.cov["distinct_nontrivial"] = n
    res.cov["samples"] = [{"case": e["case"], "text": e["text"], "definition_fired_at": e["def"][:12]} for e in list(events.values())[:3]]
    res.cov["exhaustive"] = True
    res.cov["rule"] = ("every text of Gen_Pos (0..MaxLead leading lines, up to MaxPrefix characters of the classes 1-byte / 2-byte / 3-byte / "
                       "astral before the link, a suffix, LF or CRLF); definition, prepareRename and rename at every (line, character) "
                       "of the window, plus the lines reported by references, inlay hints, workspace symbols and code actions; the "
                       "truth (UTF-16 spans, line numbers) is computed by Pos.tla and TLC judges every case")
    return res.finish()
