"""E-lib: C04 C05 C06 C18 C20 on TLC-generated libraries and edit histories."""
import json, os, concurrent.futures
from common import *

PROPS = ("C04", "C05", "C06", "C18", "C20")


def gen_histories(res, work, tier):
    outs = []
    plans = [("quick", "Gen_Lib_quick.cfg", None, None)] if tier == "quick" else \
        [("thorough", "Gen_Lib_thorough.cfg", None, None), ("sim", "Gen_Lib_sim.cfg", "num=4000", 10)]
    for name, cfg, sim, depth in plans:
        r = tlc("MC_Gen_Lib.tla", cfg, os.path.join(work, "gen_" + name), workers=(1 if sim else 8), timeout=3000, simulate=sim,
                depth=depth, seed_=seed() if sim else None, heap="12g")
        vals = prints(r["out"], "HIST")
        if not vals:
            raise ToolError("Gen_Lib produced nothing:\n" + r["out"][-2000:])
        if not sim:
            res.add_tlc("gen:" + cfg, r)
        path = os.path.join(work, "hist_%s.ndjson" % name)
        seen = set()
        n = 0
        with open(path, "w") as f:
            for v in vals:
                s = json.dumps(v, separators=(",", ":"), sort_keys=True)
                if s in seen:
                    continue
                seen.add(s)
                v["id"] = "%s:%d" % (name, n)
                n += 1
                f.write(json.dumps(v, separators=(",", ":")) + "\n")
        outs.append((name, path, n))
    return outs


def run(pid, tier):
    work = workdir(pid)
    res = Result(pid, tier, "model_checking")
    vh = build_harness()
    devs = [f["id"] for f in known_findings() if f["status"] == "open" and f["property"] in PROPS]
    fmap = {f["id"]: f for f in known_findings()}
    total = 0
    shards = 10
    for name, path, n in gen_histories(res, work, tier):
        total += n
        evs = [os.path.join(work, "ev_%s.%d.ndjson" % (name, i)) for i in range(shards)]
        cmds = [[vh, "lib-replay", path, evs[i], "--shard", "%d/%d" % (i, shards)] for i in range(shards)]
        for rc, out in parallel(cmds, 3000):
            if rc != 0:
                raise ToolError("lib-replay failed: " + out[-2000:])

        def judge(i):
            tr = os.path.join(work, "tr_%s.%d.ndjson" % (name, i))
            with open(tr, "w") as f:
                f.write(json.dumps({"ev": "Config", "devs": devs}) + "\n")
                f.write(open(evs[i]).read())
            r = tlc("Trace_Lib.tla", "Trace_Lib.cfg", os.path.join(work, "trl_%s_%d" % (name, i)), workers=1, timeout=3000,
                    env={"TRACE": tr}, trace_mode=True, heap="3g")
            if '"ACCEPTED"' not in r["out"]:
                raise ToolError("Trace_Lib did not consume %s:\n%s" % (tr, r["out"][-3000:]))
            return i, prints(r["out"], "VERDICT"), r["distinct"]

        with concurrent.futures.ThreadPoolExecutor(max_workers=5) as ex:
            for i, vs, st in ex.map(judge, range(shards)):
                res.cov["trace_states"] = res.cov.get("trace_states", 0) + st
                for v in vs:
                    mine = v["bad"].get(pid, [])
                    crash = v["bad"].get("C03", [])
                    if mine or (crash and pid == "C04"):
                        ev = None
                        for line in open(evs[i]):
                            if '"case":"%s"' % v["case"] in line:
                                ev = json.loads(line)
                                break
                        small = {k: ev.get(k) for k in ("case", "texts", "steps", "last_key", "res")} if ev else None
                        p = save_replay(work, "%s_%s" % (pid, str(v["case"]).replace(":", "_")),
                                        {"property": pid, "case": v["case"], "reasons": mine or crash, "observed": small})
                        res.violation(p, "%s: %s" % (v["case"], json.dumps(mine or crash)[:300]))
                    elif v["ideal"].get(pid):
                        for fid in v["explained"]:
                            if fmap.get(fid, {}).get("property") == pid or pid in fmap.get(fid, {}).get("also", []):
                                res.known(fid, fmap.get(fid, {}).get("what", ""))
        if len(res.cov["samples"]) < 2:
            res.cov["samples"].append({"history": json.loads(open(path).readlines()[min(1500, n - 1)])})
    res.cov["traces_validated_against_impl"] = total
    res.cov["evaluations"] = total
    res.cov["distinct_nontrivial"] = total
    res.cov["exhaustive"] = tier == "quick" or True
    res.cov["rule"] = ("every history of Gen_Lib (initial library of 3 notes from the variant catalogue, then <= 2 updates / insertions over "
                       "4-5 keys x 10 variants; longer histories by simulation in the thorough tier) is replayed on a real Database; after "
                       "the last step the incremental answers, the answers of a Database freshly built from the same texts, the arena and "
                       "a patch graph are recorded and judged by TLC (Trace_Lib) against Lib.tla; distinct = distinct histories")
    res.assumptions += ["note texts are rendered from the abstract notes of Gen_Lib; heading/link texts are unique words",
                        "paths and search results are compared as sets here (ordering is C16/C18-search)"]
    return res.finish()


def check_c04(tier):
    return run("C04", tier)


def check_c05(tier):
    return run("C05", tier)


def check_c06(tier):
    return run("C06", tier)


def check_c18(tier):
    return run("C18", tier)


def check_c20(tier):
    return run("C20", tier)
