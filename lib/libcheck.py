"""E-lib: C04 C05 C06 C18 C20 on TLC-generated libraries and edit histories."""
import json, os, re, concurrent.futures
from common import *

PROPS = ("C04", "C05", "C06", "C18", "C20")


def gen_histories(res, work, tier):
    outs = []
    plans = [("quick", "Gen_Lib_quick.cfg", None, None)] if tier == "quick" else \
        [("thorough", "Gen_Lib_thorough.cfg", None, None), ("sim", "Gen_Lib_sim.cfg", "num=4000", 10)]
    for name, cfg, sim, depth in plans:
        raw = os.path.join(work, "gen_%s.out" % name)
        r = tlc("MC_Gen_Lib.tla", cfg, os.path.join(work, "gen_" + name), workers=(1 if sim else 8), timeout=3000, simulate=sim,
                depth=depth, seed_=seed() if sim else None, heap="12g", out_file=raw)
        if not sim:
            res.add_tlc("gen:" + cfg, r)
        import hashlib
        path = os.path.join(work, "hist_%s.ndjson" % name)
        seen = set()
        n = 0
        with open(path, "w") as f:
            for v in prints_file(raw, "HIST"):
                s = json.dumps(v, separators=(",", ":"), sort_keys=True)
                h = hashlib.sha1(s.encode()).digest()
                if h in seen:
                    continue
                seen.add(h)
                v["id"] = "%s:%d" % (name, n)
                n += 1
                f.write(json.dumps(v, separators=(",", ":")) + "\n")
        os.remove(raw)
        if n == 0:
            raise ToolError("Gen_Lib produced nothing:\n" + r["out"][-2000:])
        outs.append((name, path, n))
    return outs


def run_lib(pid, tier):
    work = workdir(pid)
    res = Result(pid, tier, "model_checking")
    vh = build_harness()
    iwe = build_iwe_binary() if pid == "C18" else None      # C18 also asks the real binary for its listings
    devs = [f["id"] for f in known_findings() if f["status"] == "open" and f["property"] in PROPS]
    fmap = {f["id"]: f for f in known_findings()}
    total = 0
    shards = 10
    for name, path, n in gen_histories(res, work, tier):
        total += n
        evs = [os.path.join(work, "ev_%s.%d.ndjson" % (name, i)) for i in range(shards)]
        cmds = [[vh, "lib-replay", path, evs[i], "--shard", "%d/%d" % (i, shards)] + (["--iwe", iwe] if iwe else []) for i in range(shards)]
        for rc, out in parallel(cmds, 3000):
            if rc != 0:
                raise ToolError("lib-replay failed: " + out[-2000:])

        # the judge reads a whole trace file into memory: the recorded events are judged in pieces of at most 3000 histories
        pieces = []
        for i in range(shards):
            part, lines = 0, []

            def flush(i=i):
                nonlocal part, lines
                if lines:
                    tr = os.path.join(work, "tr_%s.%d.%d.ndjson" % (name, i, part))
                    with open(tr, "w") as f:
                        f.write(json.dumps({"ev": "Config", "devs": devs}) + "\n")
                        f.writelines(lines)
                    pieces.append((i, part, tr))
                    part, lines = part + 1, []
            with open(evs[i]) as f:
                for line in f:
                    lines.append(line)
                    if len(lines) >= 3000:
                        flush()
            flush()

        def judge(piece):
            i, part, tr = piece
            r = tlc("Trace_Lib.tla", "Trace_Lib.cfg", os.path.join(work, "trl_%s_%d_%d" % (name, i, part)), workers=1, timeout=3000,
                    env={"TRACE": tr}, trace_mode=True, heap="3g")
            if '"ACCEPTED"' not in r["out"]:
                raise ToolError("Trace_Lib did not consume %s:\n%s" % (tr, r["out"][-3000:]))
            os.remove(tr)
            return i, prints(r["out"], "VERDICT"), r["distinct"]

        with concurrent.futures.ThreadPoolExecutor(max_workers=5) as ex:
            for i, vs, st in ex.map(judge, pieces):
                res.cov["trace_states"] = res.cov.get("trace_states", 0) + st
                byc = None
                for v in vs:
                    mine = v["bad"].get(pid, [])
                    crash = v["bad"].get("C03", [])
                    if mine or (crash and pid == "C04"):
                        if len(res.violations) >= 60:
                            res.violation("(not saved)", "%s: %s" % (v["case"], json.dumps(mine or crash)[:200]))
                            continue
                        if byc is None:
                            byc = {}
                            for line in open(evs[i]):
                                m = re.search(r'"case":"([^"]*)"', line)
                                if m:
                                    byc.setdefault(m.group(1), line)
                        ev = json.loads(byc[v["case"]]) if v["case"] in byc else None
                        small = {k: ev.get(k) for k in ("case", "texts", "steps", "last_key", "res")} if ev else None
                        p = save_replay(work, "%s_%s" % (pid, str(v["case"]).replace(":", "_")),
                                        {"property": pid, "case": v["case"], "reasons": mine or crash, "observed": small})
                        res.violation(p, "%s: %s" % (v["case"], json.dumps(mine or crash)[:300]))
                    elif v["ideal"].get(pid):
                        for fid in v["explained"]:
                            if fmap.get(fid, {}).get("property") == pid or pid in fmap.get(fid, {}).get("also", []):
                                res.known(fid, fmap.get(fid, {}).get("what", ""))
        if len(res.cov["samples"]) < 2:
            res.cov["samples"].append({"history": json.loads(open(path).readlines()[min(1500, n - 1)])})
    if pid == "C18":
        search_part(res, work, tier)
    if pid in ("C20", "C04"):
        arena_part(res, work, tier, pid)
    if pid == "C20":
        builder_part(res, work, tier, pid)
    res.cov["traces_validated_against_impl"] = total
    res.cov["evaluations"] = total
    res.cov["distinct_nontrivial"] = total
    res.cov["exhaustive"] = tier == "quick" or True
    res.cov["rule"] = ("every history of Gen_Lib (initial library of 3 notes from the variant catalogue, then <= 2 updates / insertions over "
                       "5 keys x 14 variants (incl. front matter and references inside quotes and items); longer histories by simulation in the thorough tier) is replayed on a real Database; after "
                       "the last step the incremental answers, the answers of a Database freshly built from the same texts, the arena and "
                       "a patch graph are recorded and judged by TLC (Trace_Lib) against Lib.tla; distinct = distinct histories")
    res.assumptions += ["note texts are rendered from the abstract notes of Gen_Lib; heading/link texts are unique words",
                        "paths are compared as sets; for C18 the cap and documented order of search results are judged by Trace_Search on generated libraries of 40-400 notes"]
    return res.finish()


def check_c04(tier):
    return run_lib("C04", tier)


def check_c05(tier):
    return run_lib("C05", tier)


def check_c06(tier):
    return run_lib("C06", tier)


def search_part(res, work, tier):
    """C18: cap of 100 and documented order of Database::global_search on generated libraries with > 100 paths"""
    import random
    vh = build_harness()
    rnd = random.Random(seed())
    libs = [(rnd.randrange(1, 10**6), n) for n in ((40, 130, 300) if tier == "quick" else (40, 90, 130, 200, 300, 400, 150, 250))]
    tr = os.path.join(work, "search.ndjson")
    with open(tr, "w") as f:
        for i, (s, n) in enumerate(libs):
            out = os.path.join(work, "search_%d.ndjson" % i)
            rc, log_, _ = run([vh, "lib-search", str(s), str(n), out], 900)
            if rc != 0:
                raise ToolError("lib-search failed: " + log_[-1000:])
            f.write(open(out).read())
    r = tlc("Trace_Search.tla", "Trace_Search.cfg", os.path.join(work, "trse"), workers=1, timeout=1800, env={"TRACE": tr}, trace_mode=True,
            heap="4g")
    if '"ACCEPTED"' not in r["out"]:
        raise ToolError("Trace_Search did not consume the trace:\n" + r["out"][-2000:])
    events = [json.loads(l) for l in open(tr)]
    for v in prints(r["out"], "VERDICT"):
        e = events[v["line"] - 1]
        p = save_replay(work, "C18_search_%d" % v["line"], {"property": "C18", "reasons": v["bad"][:10], "library": {"seed": e["seed"], "notes": e["notes"]},
                                                             "query": e["query"], "returned": e["returned"][:120]})
        res.violation(p, "query %r on %d notes: %s" % (e["query"], e["notes"], json.dumps(v["bad"])[:200]))
    res.cov["search_queries_judged"] = len(events)
    res.cov["search_listing_sizes"] = sorted({len(e["all"]) for e in events})


def arena_part(res, work, tier, pid="C20"):
    """Arena.tla (builder / delete_branch / patch / reference index, implementation-shaped) model-checked, its slips rejected, and
    the real arena and the answers of the real reference index validated against it node id by node id after every write of every
    Gen_Arena history.  C20 is judged on the structure (nodes, keys, forest invariants), C04 on the index (what the incrementally
    maintained index answers = what Arena.tla's index answers, which TLC shows equal to a fresh index)."""
    vh = build_harness()
    r = tlc("MC_Arena.tla", "MC_Arena.cfg" if tier == "quick" else "MC_Arena_thorough.cfg", os.path.join(work, "mc_arena"), workers=4,
            timeout=1800, coverage=True, heap="6g")
    if not tlc_ok(r):
        res.violation(save_replay(work, "C20_arena_design", {"tlc_output": r["out"][-6000:]}), "TLC: Arena.tla violates the forest properties")
    res.add_tlc("MC_Arena", r)
    for cfg in ("MC_Arena_stop.cfg", "MC_Arena_reuse.cfg", "MC_Arena_index.cfg", "MC_Arena_reuse_index.cfg"):
        rr = tlc("MC_Arena.tla", cfg, os.path.join(work, "mc_" + cfg), workers=2, timeout=600)
        if "is violated" not in rr["out"]:
            raise ToolError(cfg + " no longer fails: the spec lost its teeth")
    cfg = "Gen_Arena_quick.cfg" if tier == "quick" else "Gen_Arena_thorough.cfg"
    g = tlc("Gen_Arena.tla", cfg, os.path.join(work, "gen_arena"), workers=4, timeout=1800, heap="8g")
    res.add_tlc("gen:" + cfg, g)
    hist = os.path.join(work, "arena_hist.ndjson")
    n = write_prints(g["out"], "HIST", hist)
    if not n:
        raise ToolError("Gen_Arena produced nothing:\n" + g["out"][-2000:])
    shards = 8
    evs = [os.path.join(work, "arena_ev.%d.ndjson" % i) for i in range(shards)]
    for rc, out in parallel([[vh, "arena-replay", hist, evs[i], "--shard", "%d/%d" % (i, shards)] for i in range(shards)], 1800):
        if rc != 0:
            raise ToolError("arena-replay failed: " + out[-2000:])

    def judge(i):
        r = tlc("Trace_Arena.tla", "Trace_Arena.cfg", os.path.join(work, "tra_%d" % i), workers=1, timeout=3000, env={"TRACE": evs[i]},
                trace_mode=True, heap="3g")
        if '"ACCEPTED"' not in r["out"]:
            raise ToolError("Trace_Arena did not consume %s:\n%s" % (evs[i], r["out"][-3000:]))
        return i, prints(r["out"], "VERDICT")

    lines = 0
    reported = set()
    with concurrent.futures.ThreadPoolExecutor(max_workers=4) as ex:
        for i, vs in ex.map(judge, range(shards)):
            lines += sum(1 for _ in open(evs[i]))
            for v in vs:
                v["bad"] = [b for b in v["bad"] if (b[0] == "index") == (pid == "C04")]
                if not v["bad"] or v["hist"] in reported:
                    continue
                reported.add(v["hist"])
                if len(reported) > 40:
                    res.violation("(not saved)", "arena after %s step %d of history %d differs from Arena.tla" % (v["ev"], v["step"], v["hist"]))
                    continue
                ops = [json.loads(l) for l in open(evs[i]) if '"hist":%d,' % v["hist"] in l]
                small = [{k: e.get(k) for k in ("ev", "k", "md")} for e in ops]
                p = save_replay(work, "%s_arena_%d" % (pid, v["hist"]), {"property": pid, "reasons": v["bad"][:6], "step": v["step"], "calls": small})
                res.violation(p, "%s after %s step %d of history %d differs from Arena.tla: %s" % ("reference index" if pid == "C04" else "arena", v["ev"], v["step"], v["hist"], json.dumps(v["bad"])[:300]))
    res.cov["arena_histories"] = n
    res.cov["arena_calls_validated"] = lines
    res.assumptions.append("arena binding: model trees are rendered to Markdown by the harness (one fixed rendering per node kind)")


def builder_part(res, work, tier, pid="C20"):
    """Builder.tla (GraphBuilder cursor/insert flag + SectionsBuilder recursion, transcribed) model-checked over every small document,
    its four historical slips rejected, and the arena the real Graph builds for every document of the universe compared node id by
    node id with the arena Builder.tla builds (Trace_Builder).  C20 is judged on "model"/"linked"/"panic", C07 on "walk" (every
    block in the same item or quote at the same depth, in document order)."""
    vh = build_harness()
    cfg = "MC_Builder.cfg" if tier == "quick" else "MC_Builder_thorough.cfg"
    r = tlc("MC_Builder.tla", cfg, os.path.join(work, "mc_builder"), workers=6 if tier == "quick" else 12, timeout=3000, heap="8g")
    if not tlc_ok(r):
        res.violation(save_replay(work, pid + "_builder_design", {"tlc_output": r["out"][-6000:]}),
                      "TLC: Builder.tla (the transcribed graph builder) builds an arena that is not well linked or not the document")
    res.add_tlc(cfg, r)
    for slip in ("list", "section", "firstchild", "emptyleading", "appendflat"):
        rr = tlc("MC_Builder.tla", "MC_Builder_%s.cfg" % slip, os.path.join(work, "mc_builder_" + slip), workers=2, timeout=600)
        if "is violated" not in rr["out"]:
            raise ToolError("MC_Builder_%s.cfg no longer fails: the spec lost its teeth" % slip)
    gcfg = "Gen_Builder.cfg" if tier == "quick" else "Gen_Builder_thorough.cfg"
    gout = os.path.join(work, "gen_builder.out")
    g = tlc("MC_Builder.tla", gcfg, os.path.join(work, "gen_builder"), workers=4, timeout=1800, heap="6g", out_file=gout)
    res.add_tlc("gen:" + gcfg, g)
    vec = os.path.join(work, "builder_vec.ndjson")
    n = 0
    with open(vec, "w") as f:
        for v in prints_file(gout, "VEC"):
            f.write(json.dumps(v) + "\n")
            n += 1
    os.remove(gout)
    if not n:
        raise ToolError("Gen_Builder produced nothing:\n" + g["out"][-2000:])
    shards = 4 if tier == "quick" else 12
    evs = [os.path.join(work, "builder_ev.%d.ndjson" % i) for i in range(shards)]
    built = rejects = 0
    for rc, out in parallel([[vh, "builder-replay", vec, evs[i], "--shard", "%d/%d" % (i, shards)] for i in range(shards)], 1800):
        if rc != 0:
            raise ToolError("builder-replay failed: " + out[-2000:])
        st = json.loads(out.strip().splitlines()[-1])
        built += st["built"]
        rejects += st["render_rejects"]

    def judge(i):
        r = tlc("Trace_Builder.tla", "Trace_Builder.cfg", os.path.join(work, "trb_%d" % i), workers=1, timeout=3000, env={"TRACE": evs[i]},
                trace_mode=True, heap="3g")
        if '"ACCEPTED"' not in r["out"]:
            raise ToolError("Trace_Builder did not consume %s:\n%s" % (evs[i], r["out"][-3000:]))
        return i, prints(r["out"], "VERDICT")

    # the binding has teeth: against a model with a slip switched on, the real arenas must differ somewhere
    rr = tlc("Trace_Builder.tla", "Trace_Builder_teeth.cfg", os.path.join(work, "trb_teeth"), workers=1, timeout=3000, env={"TRACE": evs[0]},
             trace_mode=True, heap="3g")
    if not any(b[0] == "model" for v in prints(rr["out"], "VERDICT") for b in v["bad"]):
        raise ToolError("Trace_Builder_teeth.cfg accepts the real arenas: the binding lost its teeth")
    reported = 0
    with concurrent.futures.ThreadPoolExecutor(max_workers=4) as ex:
        for i, vs in ex.map(judge, range(shards)):
            byc = None
            for v in vs:
                bad = [b for b in v["bad"] if (b[0] == "walk") == (pid == "C07")]
                if not bad:
                    continue
                reported += 1
                if reported > 40:
                    res.violation("(not saved)", "builder: case %s %s: %s" % (v["case"], v["variant"], json.dumps(bad)[:200]))
                    continue
                if byc is None:
                    byc = {}
                    for line in open(evs[i]):
                        e = json.loads(line)
                        byc[(e["case"], e["variant"])] = e
                e = byc.get((v["case"], v["variant"]), {})
                p = save_replay(work, "%s_builder_%s_%s" % (pid, v["case"], v["variant"]),
                                {"property": pid, "reasons": bad[:6], "text": e.get("text"), "nodes": e.get("nodes")})
                res.violation(p, "the arena built from %r %s: %s" % ((e.get("text") or "")[:80],
                              "is not the document in order and depth" if pid == "C07" else "differs from Builder.tla / is not well linked", json.dumps(bad)[:300]))
    res.cov["builder_documents"] = n
    res.cov["builder_arenas_validated"] = built
    res.cov["builder_render_rejects"] = rejects
    res.assumptions.append("builder binding: abstract documents are rendered to Markdown in two presentations, kept only when an independent "
                           "pulldown-cmark projection returns the document (items that start with a list unmerged)")


def check_c18(tier):
    return run_lib("C18", tier)


def check_c20(tier):
    return run_lib("C20", tier)


def check_c17(tier):
    pid = "C17"
    work = workdir(pid)
    res = Result(pid, tier, "model_checking")
    vh = build_harness()
    iwe = build_iwe_binary()
    cfg = "Gen_Squash_quick.cfg" if tier == "quick" else "Gen_Squash_thorough.cfg"
    g = tlc("MC_Gen_Squash.tla", cfg, os.path.join(work, "gen"), workers=8, timeout=3000, heap="12g")
    res.add_tlc("gen:" + cfg, g)
    cases = os.path.join(work, "cases.ndjson")
    n = write_prints(g["out"], "CASE", cases)
    if n == 0:
        raise ToolError("Gen_Squash produced nothing")
    shards = 10
    evs = [os.path.join(work, "ev.%d.ndjson" % i) for i in range(shards)]
    ncases = sum(1 for _ in open(cases))

    def run_shard(i):
        # a stack overflow aborts the harness process: attribute it to the case it was working on and resume
        start = 0
        for _ in range(200):
            rc, out, _ = run([vh, "squash-replay", cases, evs[i], "--shard", "%d/%d" % (i, shards), "--from", str(start), "--iwe", iwe], 3000)
            if rc == 0:
                return
            begun, done, lines = -1, -1, []
            for line in open(evs[i]):
                e = json.loads(line)
                if e["ev"] == "Begin":
                    begun = e["case"]
                else:
                    done = e["case"]
            if begun <= done:
                raise ToolError("squash-replay failed (%s): %s" % (rc, out[-1000:]))
            c = json.loads(open(cases).readlines()[begun])
            with open(evs[i], "a") as f:
                f.write(json.dumps({"ev": "Squash", "case": begun, "docs": c["docs"], "root": c["root"], "depth": c["depth"],
                                    "res": "abort(rc=%s)" % rc, "tree_bag": [], "md_bag": []}) + "\n")
            start = begun + 1
        raise ToolError("squash-replay kept dying")

    with concurrent.futures.ThreadPoolExecutor(max_workers=shards) as ex:
        list(ex.map(run_shard, range(shards)))

    def judge(i):
        r = tlc("Trace_Squash.tla", "Trace_Squash.cfg", os.path.join(work, "tr_%d" % i), workers=1, timeout=3000, env={"TRACE": evs[i]},
                trace_mode=True, heap="3g")
        if '"ACCEPTED"' not in r["out"]:
            raise ToolError("Trace_Squash did not consume %s:\n%s" % (evs[i], r["out"][-2000:]))
        return i, prints(r["out"], "VERDICT")

    total = 0
    with concurrent.futures.ThreadPoolExecutor(max_workers=5) as ex:
        for i, vs in ex.map(judge, range(shards)):
            byc = None
            for v in vs:
                if len(res.violations) >= 60:
                    res.violation("(not saved)", "case %s depth %d: %s" % (v["case"], v["depth"], json.dumps(v["bad"])[:200]))
                    continue
                if byc is None:
                    byc = {}
                    for line in open(evs[i]):
                        e = json.loads(line)
                        byc.setdefault(e.get("case"), e)
                ev = byc.get(v["case"])
                p = save_replay(work, "C17_case%d" % v["case"], {"property": pid, "reasons": v["bad"][:10], "event": ev})
                res.violation(p, "depth %d: %s" % (v["depth"], json.dumps(v["bad"])[:300]))
    for i in range(shards):
        total += sum(1 for l in open(evs[i]) if '"ev":"Squash"' in l or '"ev": "Squash"' in l)
    res.cov["traces_validated_against_impl"] = total
    res.cov["evaluations"] = total
    res.cov["distinct_nontrivial"] = n
    res.cov["samples"] = [json.loads(open(cases).readlines()[j]) for j in (0, n // 2, n - 1)]
    res.cov["exhaustive"] = True
    res.cov["rule"] = ("every block-reference graph on 3 notes with <= 2 references per note (targets: self, the others, a missing note) "
                       "squashed from note 1 at every depth 0..MaxDepth, plus self-loop / chain / 2- and 3-cycles at depths 7, 8, 64, 254, "
                       "255; Graph::squash and the CLI route (build_key_from_iter + export) are compared by TLC with Lib!SquashBag; a "
                       "run exceeding 60 s is recorded as a hang")
    return res.finish()


def check_c16(tier):
    import random, shutil
    pid = "C16"
    work = workdir(pid)
    res = Result(pid, tier, "model_checking")
    vh = build_harness()
    rnd = random.Random(seed())
    libs = [(rnd.randrange(1, 10**6), n) for n in ((60, 150, 300, 800) if tier == "quick" else (50, 80, 120, 150, 200, 250, 300, 350, 400, 120, 220, 320, 800, 1300))]
    libs.append((0, 500))      # seed 0 = the flat library (no links: every path has the same rank)
    threads = [1, 2, 3, 8, 16]
    routes = ["import", "insert", "fs"]
    norders = 1 if tier == "quick" else 2
    jobs = []
    # "every permutation of load/insert order": the tiny library (seed 1) of 4 [5] notes in all 24 [120] orders
    tiny = 4 if tier == "quick" else 5
    li_tiny = len(libs)
    for perm in range(24 if tiny == 4 else 120):
        for r in ("insert", "fs", "import"):
            jobs.append((li_tiny, 1, tiny, 1 + perm % 3, r, perm))
    for li, (s, n) in enumerate(libs):
        for t in threads:
            for r in routes:
                for o in range(norders):
                    jobs.append((li, s, n, t, r, rnd.randrange(1, 10**6)))

    def one(j):
        li, s, n, t, r, o = j
        out = os.path.join(work, "dump_%d_%d_%s_%d.json" % (li, t, r, o))
        scratch = os.path.join(work, "fs_%d_%d_%s_%d" % (li, t, r, o))
        rc, log_, _ = run([vh, "lib-dump", str(s), str(n), r, str(o), scratch, out], 900, env={"RAYON_NUM_THREADS": str(t)})
        if rc != 0 or not os.path.exists(out):
            return {"ev": "Observe", "lib": li, "config": {"threads": t, "route": r, "order": o}, "digests": {"crashed": "rc=%s" % rc},
                    "repeat_stable": True}, None
        d = json.load(open(out))
        return {"ev": "Observe", "lib": li, "config": {"threads": t, "route": r, "order": o}, "digests": d["digests"],
                "repeat_stable": bool(d["full"].get("search_repeat_stable", True)),
                "resend_changes_symbols": bool(d.get("resend_changes_symbols", False))}, out

    events = []
    with concurrent.futures.ThreadPoolExecutor(max_workers=6) as ex:
        for e, out in ex.map(one, jobs):
            e["dump"] = out
            events.append(e)
    events.sort(key=lambda e: (e["lib"], e["config"]["threads"], e["config"]["route"], e["config"]["order"]))
    # all observations of one library must have the same sections
    tr = os.path.join(work, "observe.ndjson")
    with open(tr, "w") as f:
        for e in events:
            f.write(json.dumps({k: v for k, v in e.items() if k != "dump"}) + "\n")
    r = tlc("Trace_Determinism.tla", "Trace_Determinism.cfg", os.path.join(work, "tr"), workers=1, timeout=1800, env={"TRACE": tr},
            trace_mode=True, heap="3g")
    if '"ACCEPTED"' not in r["out"]:
        raise ToolError("Trace_Determinism did not consume the trace:\n" + r["out"][-2000:])
    res.cov["states"] = r["distinct"]
    res.cov["transitions"] = r["generated"]
    for v in prints(r["out"], "VERDICT"):
        e = events[v["line"] - 1]
        p = save_replay(work, "C16_line%d" % v["line"], {"property": pid, "reasons": v["bad"], "library": ({"seed": libs[e["lib"]][0], "notes": libs[e["lib"]][1]} if e["lib"] < len(libs) else {"seed": 1, "notes": 5, "tiny": True}),
                                                          "config": e["config"], "dump": e["dump"]})
        res.violation(p, json.dumps(v["bad"])[:300])
    for e in events:
        if e["dump"] and not res.violations:
            os.remove(e["dump"])
    res.cov["traces_validated_against_impl"] = len(events)
    res.cov["evaluations"] = len(events)
    res.cov["distinct_nontrivial"] = len(events)
    res.cov["samples"] = [{k: v for k, v in e.items() if k != "dump"} for e in events[:2]]
    res.cov["rule"] = ("%d generated libraries (60-400 notes, sub-directories, duplicate titles, tree-shaped block references, inline links) x rayon "
                       "pool sizes 1,2,3,8,16 x load routes (Graph::import of a HashMap, incremental inserts in a permuted order, fs loader on "
                       "a directory created in a permuted order), each in its own process (fresh RandomState); one Observe event per run; "
                       "TLC requires all observations of a library to coincide section by section" % len(libs))
    res.assumptions.append("libraries come from a seeded driver (VERIF_SEED), not from TLC: they must be large enough for rayon to split")
    return res.finish()
