"""E-doc: C01 (content), C02 (fixpoint), C03 (totality), C07 (outline) on TLC-generated documents."""
import json, os, random, concurrent.futures
from common import *

VARIANTS = "loose-atx,tight-setext,tight-atx-indent,loose-crlf"
ROUTES = "graph,library,update,lsp"

# name -> (module, cfg, simulate, depth)
UNIVERSES = {
    "full3": ("MC_DocGen.tla", "DocGen_full3.cfg", None, None),
    "full4": ("MC_DocGen.tla", "DocGen_full4.cfg", None, None),
    "struct4": ("MC_DocGen.tla", "DocGen_struct4.cfg", None, None),
    "struct5": ("MC_DocGen.tla", "DocGen_struct5.cfg", None, None),
    "items5": ("MC_DocGen.tla", "DocGen_items5.cfg", None, None),
    "empty5": ("MC_DocGen.tla", "DocGen_empty5.cfg", None, None),
    "emptyq5": ("MC_DocGen.tla", "DocGen_emptyq5.cfg", None, None),
    "quotes6": ("MC_DocGen.tla", "DocGen_quotes6.cfg", None, None),
    "html4": ("MC_DocGen.tla", "DocGen_html4.cfg", None, None),
    "html6": ("MC_DocGen.tla", "DocGen_html6.cfg", None, None),
    "items5q": ("MC_DocGen.tla", "DocGen_items5q.cfg", None, None),
    "heads4": ("MC_DocGen.tla", "DocGen_heads4.cfg", None, None),
    "heads5": ("MC_DocGen.tla", "DocGen_heads5.cfg", None, None),
    "heads6": ("MC_DocGen.tla", "DocGen_heads6.cfg", None, None),
    "inline": ("Gen_Inline.tla", "Gen_Inline.cfg", None, None),
    "inline1": ("Gen_Inline.tla", "Gen_Inline1.cfg", None, None),
    "lists": ("Gen_Lists.tla", "Gen_Lists.cfg", None, None),
    "deep": ("MC_DocGen.tla", "DocGen_deep.cfg", "num=%d", 14),
}

PLAN = {
    ("C01", "quick"): ["full3", "struct5", "heads4", "inline", "lists", "items5", "empty5", "emptyq5", "quotes6", "html4", "html6"],
    ("C02", "quick"): ["full3", "struct5", "heads4", "inline", "lists", "items5", "empty5", "emptyq5", "quotes6", "html4", "html6"],
    ("C07", "quick"): ["full3", "struct5", "heads5", "lists", "inline1", "items5", "empty5", "emptyq5", "quotes6", "html4", "html6"],
    ("C03", "quick"): ["full3", "struct4", "heads4", "inline1", "lists", "empty5", "emptyq5"],
    ("C01", "thorough"): ["full4", "struct5", "heads5", "inline", "lists", "deep", "items5", "empty5", "emptyq5", "quotes6", "html4", "html6", "items5q"],
    ("C02", "thorough"): ["full4", "struct5", "heads5", "inline", "lists", "deep", "items5", "empty5", "emptyq5", "quotes6", "html4", "html6", "items5q"],
    ("C07", "thorough"): ["full4", "struct5", "heads6", "inline", "lists", "deep", "items5", "empty5", "emptyq5", "quotes6", "html4", "html6", "items5q"],
    ("C03", "thorough"): ["full4", "struct5", "heads5", "inline", "lists", "deep", "empty5", "emptyq5", "items5"],
}


def generate(res, work, name, tier):
    module, cfg, sim, depth = UNIVERSES[name]
    if sim:
        sim = sim % (3000 if tier == "thorough" else 2000)
    raw = os.path.join(work, "gen_%s.out" % name)
    r = tlc(module, cfg, os.path.join(work, "gen_" + name), workers=(1 if sim else 8), timeout=2400, simulate=sim, depth=depth,
            seed_=seed() if sim else None, heap="12g", out_file=raw)
    if not sim:
        res.add_tlc("gen:" + cfg, r)
    import hashlib
    seen = set()
    path = os.path.join(work, "vec_%s.ndjson" % name)
    n = 0
    with open(path, "w") as f:
        for v in prints_file(raw, "VEC"):        # streamed: a simulated universe prints hundreds of thousands of lines
            s = json.dumps(v["doc"], separators=(",", ":"), sort_keys=True)
            h = hashlib.sha1(s.encode()).digest()
            if h in seen:
                continue
            seen.add(h)
            v["id"] = "%s:%d" % (name, n)
            n += 1
            f.write(json.dumps(v, separators=(",", ":")) + "\n")
    os.remove(raw)
    if n == 0:
        raise ToolError("generator %s produced nothing:\n%s" % (cfg, r["out"][-2000:]))
    return path, n


def replay(work, name, vec, shards=10, exts=""):
    vh = build_harness()
    cmds, outs = [], []
    for i in range(shards):
        ev = os.path.join(work, "ev_%s.%d.ndjson" % (name, i))
        det = os.path.join(work, "det_%s.%d.ndjson" % (name, i))
        outs.append((ev, det))
        c = [vh, "doc-replay", vec, ev, det, "--shard", "%d/%d" % (i, shards), "--variants", VARIANTS, "--routes", ROUTES]
        if exts:
            c += ["--ext", exts]
        cmds.append(c)
    stats = {"cases": 0, "rendered": 0, "render_rejects": 0, "events": 0}
    for rc, out in parallel(cmds, 6000):
        if rc != 0:
            raise ToolError("doc-replay failed (%s): %s" % (rc, out[-2000:]))
        last = [l for l in out.splitlines() if l.startswith("{")]
        if last:
            s = json.loads(last[-1])
            for k in stats:
                stats[k] += s.get(k, 0)
    return outs, stats


def judge(work, name, outs, devs):
    """TLC judges every shard (in pieces of at most ~150 MB: the judge reads a whole trace file into memory);
    returns list of verdict dicts (with shard index)"""
    verdicts = []
    procs = []
    for i, (ev, det) in enumerate(outs):
        part, size, f = 0, 0, None
        with open(ev) as g:
            for line in g:
                if f is None or size > 150_000_000:
                    if f:
                        f.close()
                    tr = os.path.join(work, "tr_%s.%d.%d.ndjson" % (name, i, part))
                    f = open(tr, "w")
                    f.write(json.dumps({"ev": "Config", "devs": devs}) + "\n")
                    procs.append((i, part, tr))
                    part, size = part + 1, 0
                f.write(line)
                size += len(line)
        if f:
            f.close()
    import concurrent.futures

    def one(args):
        i, part, tr = args
        r = tlc("Trace_Doc.tla", "Trace_Doc.cfg", os.path.join(work, "trd_%s_%d_%d" % (name, i, part)), workers=1, timeout=2400,
                env={"TRACE": tr}, trace_mode=True, heap="3g")
        if '"ACCEPTED"' not in r["out"]:
            raise ToolError("Trace_Doc did not consume %s:\n%s" % (tr, r["out"][-3000:]))
        os.remove(tr)
        vs = prints(r["out"], "VERDICT")
        for v in vs:
            v["shard"] = i
        return vs, r["distinct"]

    states = 0
    with concurrent.futures.ThreadPoolExecutor(max_workers=5) as ex:
        for vs, d in ex.map(one, procs):
            verdicts += vs
            states += d
    return verdicts, states


def splitter_design(res, work, tier):
    """C07 at the design level: DocImpl.tla (the section splitter transcribed) satisfies the outline requirements for every
    block sequence of one container up to the bound; the relation the splitter does NOT guarantee must be rejected"""
    cfg = "MC_DocImpl_quick.cfg" if tier == "quick" else "MC_DocImpl_thorough.cfg"
    r = tlc("MC_DocImpl.tla", cfg, os.path.join(work, "mc_docimpl"), workers=8, timeout=3000, heap="6g")
    if not tlc_ok(r):
        res.violation(save_replay(work, "C07_splitter_design", {"tlc_output": r["out"][-6000:]}),
                      "TLC: DocImpl!Predict (the transcribed section splitter) violates the outline requirements")
    res.add_tlc(cfg, r)
    rr = tlc("MC_DocImpl.tla", "MC_DocImpl_relative.cfg", os.path.join(work, "mc_docimpl_rel"), workers=2, timeout=600)
    if "is violated" not in rr["out"]:
        raise ToolError("MC_DocImpl_relative.cfg no longer fails: the spec lost its teeth")


def predict_drift(res, work, name, outs):
    """binds DocImpl!Predict to the code: heading levels written by the real formatter == Predict, for every recorded event of
    the heading universe.  Drift is reported in the evidence (and on stdout); it is not a violation of C07 by itself."""
    import concurrent.futures

    def one(i):
        r = tlc("Trace_DocImpl.tla", "Trace_DocImpl.cfg", os.path.join(work, "trdi_%s_%d" % (name, i)), workers=1, timeout=2400,
                env={"TRACE": outs[i][0]}, trace_mode=True, heap="3g")
        if '"ACCEPTED"' not in r["out"]:
            raise ToolError("Trace_DocImpl did not consume %s:\n%s" % (outs[i][0], r["out"][-3000:]))
        return r["out"].count('<<"MATCH"'), prints(r["out"], "DRIFT")

    with concurrent.futures.ThreadPoolExecutor(max_workers=5) as ex:
        for m, ds in ex.map(one, range(len(outs))):
            res.cov["predict_matches"] = res.cov.get("predict_matches", 0) + m
            res.cov["drift"] += len(ds)
            for d in ds[:3]:
                if len(res.cov.setdefault("drift_samples", [])) < 5:
                    res.cov["drift_samples"].append(d)
    if res.cov["drift"]:
        print("DRIFT property=C07 the formatter's heading levels differ from DocImpl!Predict on %d observations (model out of date; "
              "not a verdict on the property): %s" % (res.cov["drift"], json.dumps(res.cov["drift_samples"][:1])[:300]))


def find_detail(outs, v):
    ev, det = outs[v["shard"]]
    found = []
    with open(det) as f:
        for line in f:
            if '"case":"%s"' % v["case"] in line:
                d = json.loads(line)
                if d.get("variant") == v["variant"] and not d.get("reject"):
                    found.append(d)
    return found


def check(pid, tier):
    work = workdir(pid)
    level = "exploration" if pid == "C03" else "model_checking"
    res = Result(pid, tier, level)
    devs = [f["id"] for f in known_findings() if f["status"] == "open" and f["property"] in ("C01", "C02", "C03", "C07")]
    fmap = {f["id"]: f for f in known_findings()}
    total_cases, total_events, nontrivial, rejects = 0, 0, 0, 0
    shown = 0
    for name in PLAN[(pid, tier)]:
        vec, n = generate(res, work, name, tier)
        exts = ",.md" if name in ("inline", "inline1", "full3") else ""
        outs, stats = replay(work, name, vec, exts=exts)
        verdicts, states = judge(work, name, outs, devs)
        res.cov["trace_states"] = res.cov.get("trace_states", 0) + states
        if pid == "C07" and name.startswith("heads"):
            predict_drift(res, work, name, outs)
        total_cases += stats["cases"]
        total_events += stats["events"]
        rejects += stats["render_rejects"]
        nontrivial += n
        for v in verdicts:
            mine = v["bad"].get(pid, [])
            if mine:
                det = find_detail(outs, v) if shown < 40 else []
                shown += 1
                p = save_replay(work, "%s_%s_%s_%s" % (pid, v["case"].replace(":", "_"), v["variant"], v["route"]),
                                {"property": pid, "case": v["case"], "variant": v["variant"], "route": v["route"], "reasons": mine,
                                 "runs": det, "rerun": "./check %s --replay <this file>" % pid})
                res.violation(p, "%s %s/%s: %s" % (v["case"], v["variant"], v["route"], json.dumps(mine)[:300]))
            elif v["ideal"].get(pid):
                for fid in v["explained"]:
                    res.known(fid, fmap.get(fid, {}).get("what", ""))
        if len(res.cov["samples"]) < 4:
            with open(outs[0][1]) as f:
                for line in f:
                    d = json.loads(line)
                    if not d.get("reject"):
                        res.cov["samples"].append({"universe": name, "case": d["case"], "variant": d["variant"], "route": d["route"],
                                                   "text": d["text"][:400], "out": (d.get("out") or "")[:400]})
                        break
    if pid == "C03":
        nontrivial += total_extra(res, work, tier)
    if pid == "C07":
        splitter_design(res, work, tier)
        from libcheck import builder_part
        builder_part(res, work, tier, "C07")
    res.cov["traces_validated_against_impl"] = total_events
    res.cov["evaluations"] = total_events
    res.cov["distinct_nontrivial"] = nontrivial
    res.cov["render_rejects"] = rejects
    res.cov["documents"] = total_cases
    res.cov["exhaustive"] = tier == "quick" or True
    res.cov["rule"] = ("every abstract document of the listed TLC generators (%s) is rendered in up to 4 presentation variants (self-checked "
                       "with a direct pulldown-cmark projection; mismatches are render_rejects, never judged), formatted through "
                       "Graph::from_markdown/to_markdown, Graph::import/export, update_key and the LSP formatting request, and each "
                       "observation is judged by TLC (Trace_Doc) with the relations of Doc.tla; distinct_nontrivial = distinct abstract "
                       "documents") % ", ".join(PLAN[(pid, tier)])
    res.assumptions += ["pulldown-cmark 0.13 parses CommonMark correctly (it is the only Markdown parser available); the projector uses it directly, not iwe's reader",
                        "words are letters/digits unless the document is in the special-character universe"]
    return res.finish()


def mutate(rnd, t):
    """seeded byte-level mutation at character boundaries"""
    specials = ["\r", "\n", "\t", "\x00", "\ufeff", "*", "_", "`", "[", "]", "(", ")", "<", ">", "#", "|", "-", "+", "1.", "  ", "\\", "![", "[[", "]]", "---", "```", "~~~", ">", "é", "😀", "&amp;", "<div>", "$"]
    chars = list(t)
    for _ in range(rnd.randint(1, 4)):
        op = rnd.choice(["ins", "del", "dup", "swap", "cut", "nl"])
        i = rnd.randint(0, len(chars)) if chars else 0
        if op == "ins":
            chars[i:i] = list(rnd.choice(specials))
        elif op == "del" and chars:
            j = min(len(chars), i + rnd.randint(1, 5))
            del chars[i:j]
        elif op == "dup" and chars:
            j = min(len(chars), i + rnd.randint(1, 12))
            chars[i:i] = chars[i:j]
        elif op == "swap" and len(chars) > 2:
            a, b = rnd.randrange(len(chars)), rnd.randrange(len(chars))
            chars[a], chars[b] = chars[b], chars[a]
        elif op == "cut" and chars:
            chars = chars[:i]
        elif op == "nl":
            chars = list("".join(chars).replace("\n", "\r\n", rnd.randint(1, 3)))
    return "".join(chars)


def stress_texts(tier):
    # (both tiers: from a few thousand sibling blocks on, the open finding F-C03-2 - recursion per sibling, quadratic
    # rendering - is all one sees; its sizes are exercised by the two explicit 10 000 / 20 000 sibling texts of the thorough tier)
    big = 600
    deep = 60 if tier == "quick" else 300
    out = {
        "siblings-paragraphs": "".join("para %d\n\n" % i for i in range(big)),
        "siblings-items": "".join("- item %d\n" % i for i in range(big)),
        "siblings-headings": "".join("## h%d\n\n" % i for i in range(big)),
        "siblings-refs": "".join("[r%d](n%d)\n\n" % (i, i) for i in range(big)),
        "nested-lists": "".join("  " * i + "- l%d\n" % i for i in range(deep)),
        "nested-quotes": "".join("> " * i + "q%d\n\n" % i for i in range(1, deep)),
        "nested-emphasis": "*" * deep + "x" + "*" * deep + "\n",
        "nested-links": "[" * deep + "x" + "](a)" * deep + "\n",
        "long-line": "word " * (big * 20) + "\n",
        "long-table": "| a | b |\n|---|---|\n" + "".join("| %d | [x](y) |\n" % i for i in range(big)),
        "deep-headings": "".join("#" * (1 + i % 6) + " h%d\n\n" % i for i in range(big)),
        "only-newlines": "\n" * big,
        "long-unicode-title": "# " + "\u00e9" * 300 + "\n\ntext [l](" + "\u65e5" * 90 + ")\n",
        "long-unicode-chain": "# " + "\u65e5" * 50 + "\n\n## " + "\u672c" * 50 + "\n\n### " + "\u8a9e" * 50 + "\n\np\n",
        "crlf-everything": "# t\r\n\r\n- a\r\n- b\r\n\r\n> q\r\n",
        "nul": "a\x00b\n\x00\n",
        "bom": "\ufeff# t\n",
        "unclosed-fence": "```\ncode\n",
        "unclosed-meta": "---\nmeta: 1\n",
        "meta-only": "---\na: 1\n---\n",
        "empty": "",
        "item-of-empty-list": "[r](n)\n\n1. 1)\n\n1.     code\nline\n3 line\n",
        "item-of-empty-list-tail": "- -\n\n  tail\n- x\n",
        "items-of-empty-lists": "- -\n- - -\n- x\n  - -\n\n    y\n",
        # a multi-byte character across every byte offset near the powers of two a fixed-size cut would use
        **{"unicode-boundary-%d" % k: "# " + "a" * k + "\u65e5\u672c\u8a9e\U0001F600\u65e5\u672c\n\n## " + "b" * (k // 2) + "\u00e9\u00e9\u00e9\n\np\n"
           for k in list(range(58, 66)) + list(range(122, 130)) + list(range(250, 258))},
        "trailing-cr": "# title\r",
        "trailing-cr-para": "text\n\nmore\r",
        "lone-cr-middle": "a\rb\n\n# h\rz\n",
        "trailing-spaces": "text   \n   \n",
        "only-cr": "\r",
        "tabs": "\t- a\n\t\t- b\n\tc\n",
        "deep-one-line-quotes": ">" * 64 + " text\n",
        "deep-one-line-items": "- " * 40 + "x\n",
    }
    return out


def total_extra(res, work, tier):
    """C03: every operation on every rendered text of the universes, on seeded mutations of them and on stress sizes,
    in child processes (an abort is attributed to the text the child was working on)"""
    import random, glob
    vh = build_harness()
    rnd = random.Random(seed())
    texts, seen = [], set()
    for det in sorted(glob.glob(os.path.join(work, "det_*.ndjson"))):
        with open(det) as f:
            for line in f:
                if '"reject"' in line:
                    continue
                t = json.loads(line).get("text")
                if t is not None and t not in seen:
                    seen.add(t)
                    texts.append(t)
    rnd.shuffle(texts)
    n_base = 1500 if tier == "quick" else 20000
    base = texts[:n_base]
    corpus = [{"id": "universe:%d" % i, "text": t} for i, t in enumerate(base)]
    n_mut = 3000 if tier == "quick" else 60000
    for i in range(n_mut):
        corpus.append({"id": "mutation:%d" % i, "text": mutate(rnd, rnd.choice(texts))})
    for name, t in stress_texts(tier).items():
        corpus.append({"id": "stress:" + name, "text": t})
    if tier == "thorough":
        # beyond the recursion depth the code survives (open finding F-C03-2)
        corpus.append({"id": "stress:siblings-paragraphs-10000", "text": "".join("para %d\n\n" % i for i in range(10000)), "siblings": 10000})
        corpus.append({"id": "stress:siblings-items-20000", "text": "".join("- item %d\n" % i for i in range(20000)), "siblings": 20000})
    shards = 12
    paths = []
    for s in range(shards):
        p = os.path.join(work, "total_in.%d.ndjson" % s)
        with open(p, "w") as f:
            for c in corpus[s::shards]:
                f.write(json.dumps(c) + "\n")
        paths.append(p)

    def run_shard(s):
        inp, out = paths[s], os.path.join(work, "total_out.%d.ndjson" % s)
        if os.path.exists(out):
            os.remove(out)
        n = sum(1 for _ in open(inp))
        start = 0
        aborted = []
        while start < n:
            rc, log_, _ = run([vh, "total-run", inp, out, str(start), "20000"], 3000)
            done, begun = -1, -1
            for line in open(out):
                e = json.loads(line)
                if e["ev"] == "Begin":
                    begun = e["i"]
                elif e["ev"] == "Total":
                    done = e["i"]
            if rc == 0 and done == n - 1:
                break
            # the child died on text `begun`
            if begun > done:
                with open(out, "a") as f:
                    item = json.loads(open(inp).readlines()[begun])
                    f.write(json.dumps({"ev": "Total", "i": begun, "id": item.get("id", "?"), "bad": [["process", "abort"]], "ops": 0, "ms": 0,
                                        "siblings": item.get("siblings", 0)}) + "\n")
                start = begun + 1
            else:
                start = done + 1
        return out

    outs = []
    with concurrent.futures.ThreadPoolExecutor(max_workers=shards) as ex:
        outs = list(ex.map(run_shard, range(shards)))
    total = 0
    for s, o in enumerate(outs):
        tr = os.path.join(work, "total_tr.%d.ndjson" % s)
        items = [json.loads(l) for l in open(paths[s])]
        devs = [f["id"] for f in known_findings() if f["status"] == "open" and f["property"] == "C03"]
        with open(tr, "w") as f:
            f.write(json.dumps({"ev": "Config", "devs": devs}) + "\n")
            for line in open(o):
                e = json.loads(line)
                if e["ev"] == "Total":
                    e.setdefault("siblings", items[e["i"]].get("siblings", 0))
                    f.write(json.dumps(e) + "\n")
                    total += 1
        r = tlc("Trace_Total.tla", "Trace_Total.cfg", os.path.join(work, "trt_%d" % s), workers=1, timeout=1800, env={"TRACE": tr},
                trace_mode=True, heap="2g")
        if '"ACCEPTED"' not in r["out"]:
            raise ToolError("Trace_Total did not consume %s:\n%s" % (tr, r["out"][-2000:]))
        for v in prints(r["out"], "VERDICT"):
            item = items[v["i"]]
            if not v["bad"]:
                for fid in v["explained"]:
                    res.known(fid, [f for f in known_findings() if f["id"] == fid][0]["what"])
                continue
            p = save_replay(work, "C03_total_%s" % item["id"].replace(":", "_"), {"property": "C03", "reasons": v["bad"], "id": item["id"], "text": item["text"][:20000]})
            res.violation(p, "%s %s: %s" % (item["id"], json.dumps(item["text"][:60]), json.dumps(v["bad"])[:200]))
    res.cov["total_texts"] = total
    res.cov["total_mutations"] = n_mut
    res.cov["total_stress"] = sorted(stress_texts(tier))
    res.cov["evaluations_total_ops"] = total * 14
    return total


def check_c01(tier):
    return check("C01", tier)


def check_c02(tier):
    return check("C02", tier)


def check_c03(tier):
    return check("C03", tier)


def check_c07(tier):
    return check("C07", tier)
