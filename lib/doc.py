"""E-doc: C01 (content), C02 (fixpoint), C03 (totality), C07 (outline) on TLC-generated documents."""
import json, os, random
from common import *

VARIANTS = "loose-atx,tight-setext,tight-atx-indent,loose-crlf"
ROUTES = "graph,library,update,lsp"

# name -> (module, cfg, simulate, depth)
UNIVERSES = {
    "full3": ("MC_DocGen.tla", "DocGen_full3.cfg", None, None),
    "full4": ("MC_DocGen.tla", "DocGen_full4.cfg", None, None),
    "struct4": ("MC_DocGen.tla", "DocGen_struct4.cfg", None, None),
    "struct5": ("MC_DocGen.tla", "DocGen_struct5.cfg", None, None),
    "heads4": ("MC_DocGen.tla", "DocGen_heads4.cfg", None, None),
    "heads5": ("MC_DocGen.tla", "DocGen_heads5.cfg", None, None),
    "heads6": ("MC_DocGen.tla", "DocGen_heads6.cfg", None, None),
    "inline": ("Gen_Inline.tla", "Gen_Inline.cfg", None, None),
    "inline1": ("Gen_Inline.tla", "Gen_Inline1.cfg", None, None),
    "lists": ("Gen_Lists.tla", "Gen_Lists.cfg", None, None),
    "deep": ("MC_DocGen.tla", "DocGen_deep.cfg", "num=%d", 14),
}

PLAN = {
    ("C01", "quick"): ["full3", "struct5", "heads4", "inline", "lists"],
    ("C02", "quick"): ["full3", "struct5", "heads4", "inline", "lists"],
    ("C07", "quick"): ["full3", "struct5", "heads5", "lists", "inline1"],
    ("C03", "quick"): ["full3", "struct4", "heads4", "inline1", "lists"],
    ("C01", "thorough"): ["full4", "struct5", "heads5", "inline", "lists", "deep"],
    ("C02", "thorough"): ["full4", "struct5", "heads5", "inline", "lists", "deep"],
    ("C07", "thorough"): ["full4", "struct5", "heads6", "inline", "lists", "deep"],
    ("C03", "thorough"): ["full4", "struct5", "heads5", "inline", "lists", "deep"],
}


def generate(res, work, name, tier):
    module, cfg, sim, depth = UNIVERSES[name]
    if sim:
        sim = sim % (20000 if tier == "thorough" else 2000)
    r = tlc(module, cfg, os.path.join(work, "gen_" + name), workers=(1 if sim else 8), timeout=2400, simulate=sim, depth=depth,
            seed_=seed() if sim else None, heap="12g")
    vals = prints(r["out"], "VEC")
    if not vals:
        raise ToolError("generator %s produced nothing:\n%s" % (cfg, r["out"][-2000:]))
    if not sim:
        res.add_tlc("gen:" + cfg, r)
    seen = set()
    path = os.path.join(work, "vec_%s.ndjson" % name)
    n = 0
    with open(path, "w") as f:
        for v in vals:
            s = json.dumps(v["doc"], separators=(",", ":"), sort_keys=True)
            if s in seen:
                continue
            seen.add(s)
            v["id"] = "%s:%d" % (name, n)
            n += 1
            f.write(json.dumps(v, separators=(",", ":")) + "\n")
    return path, n


def replay(work, name, vec, shards=10, exts=""):
    vh = build_harness()
    cmds, outs = [], []
    for i in range(shards):
        ev = os.path.join(work, "ev_%s.%d.ndjson" % (name, i))
        det = os.path.join(work, "det_%s.%d.ndjson" % (name, i))
        outs.append((ev, det))
        c = [vh, "doc-replay", vec, ev, det, "--shard", "%d/%d" % (i, shards), "--variants", VARIANTS, "--routes", ROUTES]
        if exts:
            c += ["--ext", exts]
        cmds.append(c)
    stats = {"cases": 0, "rendered": 0, "render_rejects": 0, "events": 0}
    for rc, out in parallel(cmds, 3000):
        if rc != 0:
            raise ToolError("doc-replay failed (%s): %s" % (rc, out[-2000:]))
        last = [l for l in out.splitlines() if l.startswith("{")]
        if last:
            s = json.loads(last[-1])
            for k in stats:
                stats[k] += s.get(k, 0)
    return outs, stats


def judge(work, name, outs, devs):
    """TLC judges every shard; returns list of verdict dicts (with shard index)"""
    verdicts = []
    procs = []
    for i, (ev, det) in enumerate(outs):
        tr = os.path.join(work, "tr_%s.%d.ndjson" % (name, i))
        with open(tr, "w") as f:
            f.write(json.dumps({"ev": "Config", "devs": devs}) + "\n")
            with open(ev) as g:
                for line in g:
                    f.write(line)
        procs.append((i, tr))
    import concurrent.futures

    def one(args):
        i, tr = args
        r = tlc("Trace_Doc.tla", "Trace_Doc.cfg", os.path.join(work, "trd_%s_%d" % (name, i)), workers=1, timeout=2400,
                env={"TRACE": tr}, trace_mode=True, heap="3g")
        if '"ACCEPTED"' not in r["out"]:
            raise ToolError("Trace_Doc did not consume %s:\n%s" % (tr, r["out"][-3000:]))
        vs = prints(r["out"], "VERDICT")
        for v in vs:
            v["shard"] = i
        return vs, r["distinct"]

    states = 0
    with concurrent.futures.ThreadPoolExecutor(max_workers=5) as ex:
        for vs, d in ex.map(one, procs):
            verdicts += vs
            states += d
    return verdicts, states


def find_detail(outs, v):
    ev, det = outs[v["shard"]]
    found = []
    with open(det) as f:
        for line in f:
            if '"case":"%s"' % v["case"] in line:
                d = json.loads(line)
                if d.get("variant") == v["variant"] and not d.get("reject"):
                    found.append(d)
    return found


def check(pid, tier):
    work = workdir(pid)
    level = "exploration" if pid == "C03" else "model_checking"
    res = Result(pid, tier, level)
    devs = [f["id"] for f in known_findings() if f["status"] == "open" and f["property"] in ("C01", "C02", "C03", "C07")]
    fmap = {f["id"]: f for f in known_findings()}
    total_cases, total_events, nontrivial, rejects = 0, 0, 0, 0
    shown = 0
    for name in PLAN[(pid, tier)]:
        vec, n = generate(res, work, name, tier)
        exts = ",.md" if name in ("inline", "inline1", "full3") else ""
        outs, stats = replay(work, name, vec, exts=exts)
        verdicts, states = judge(work, name, outs, devs)
        res.cov["trace_states"] = res.cov.get("trace_states", 0) + states
        total_cases += stats["cases"]
        total_events += stats["events"]
        rejects += stats["render_rejects"]
        nontrivial += n
        for v in verdicts:
            mine = v["bad"].get(pid, [])
            if mine:
                det = find_detail(outs, v) if shown < 40 else []
                shown += 1
                p = save_replay(work, "%s_%s_%s_%s" % (pid, v["case"].replace(":", "_"), v["variant"], v["route"]),
                                {"property": pid, "case": v["case"], "variant": v["variant"], "route": v["route"], "reasons": mine,
                                 "runs": det, "rerun": "./check %s --replay <this file>" % pid})
                res.violation(p, "%s %s/%s: %s" % (v["case"], v["variant"], v["route"], json.dumps(mine)[:300]))
            elif v["ideal"].get(pid):
                for fid in v["explained"]:
                    res.known(fid, fmap.get(fid, {}).get("what", ""))
        if len(res.cov["samples"]) < 4:
            with open(outs[0][1]) as f:
                for line in f:
                    d = json.loads(line)
                    if not d.get("reject"):
                        res.cov["samples"].append({"universe": name, "case": d["case"], "variant": d["variant"], "route": d["route"],
                                                   "text": d["text"][:400], "out": (d.get("out") or "")[:400]})
                        break
    if pid == "C03":
        nontrivial += total_extra(res, work, tier)
    res.cov["traces_validated_against_impl"] = total_events
    res.cov["evaluations"] = total_events
    res.cov["distinct_nontrivial"] = nontrivial
    res.cov["render_rejects"] = rejects
    res.cov["documents"] = total_cases
    res.cov["exhaustive"] = tier == "quick" or True
    res.cov["rule"] = ("every abstract document of the listed TLC generators (%s) is rendered in up to 4 presentation variants (self-checked "
                       "with a direct pulldown-cmark projection; mismatches are render_rejects, never judged), formatted through "
                       "Graph::from_markdown/to_markdown, Graph::import/export, update_key and the LSP formatting request, and each "
                       "observation is judged by TLC (Trace_Doc) with the relations of Doc.tla; distinct_nontrivial = distinct abstract "
                       "documents") % ", ".join(PLAN[(pid, tier)])
    res.assumptions += ["pulldown-cmark 0.13 parses CommonMark correctly (it is the only Markdown parser available); the projector uses it directly, not iwe's reader",
                        "words are letters/digits unless the document is in the special-character universe"]
    return res.finish()


def total_extra(res, work, tier):
    return 0


def check_c01(tier):
    return check("C01", tier)


def check_c02(tier):
    return check("C02", tier)


def check_c03(tier):
    return check("C03", tier)


def check_c07(tier):
    return check("C07", tier)
