"""E-refactor: C09 (extract / inline), C10 (list / section conversions), C08 (rename)."""
import json, os, shutil, concurrent.futures
from common import *


def libraries(res, work, cfg):
    r = tlc("MC_Gen_Lib.tla", cfg, os.path.join(work, "gen"), workers=8, timeout=3000, heap="12g")
    res.add_tlc("gen:" + cfg, r)
    path = os.path.join(work, "libs.ndjson")
    n = write_prints(r["out"], "HIST", path)
    if n == 0:
        raise ToolError("Gen_Lib produced no library")
    return path, n


def run_actions(pid, tier):
    work = workdir(pid)
    res = Result(pid, tier, "model_checking")
    vh = build_harness()
    devs = [f["id"] for f in known_findings() if f["status"] == "open" and f["property"] in ("C09", "C10")]
    fmap = {f["id"]: f for f in known_findings()}
    libs, n = libraries(res, work, "Gen_Lib_refactor.cfg" if tier == "quick" else "Gen_Lib_refactor_thorough.cfg")
    shards = 10
    scratch = os.path.join(work, "scratch")
    evs = [os.path.join(work, "ev.%d.ndjson" % i) for i in range(shards)]
    aborted = []

    def run_shard(i):
        # a stack overflow / abort of the code under test kills the harness process: the action it was resolving
        # (announced by a Begin line) is recorded as aborted and the run resumes with the next library
        start = 0
        for _ in range(40):
            rc, out, _ = run([vh, "refactor-replay", libs, evs[i], scratch, "--shard", "%d/%d" % (i, shards), "--from", str(start)], 3000)
            if rc == 0:
                return
            begun = None
            for line in open(evs[i]):
                if line.startswith('{"case"') or '"ev":"Begin"' in line:
                    e = json.loads(line)
                    if e.get("ev") == "Begin":
                        begun = e
            if begun is None or rc == -9:
                raise ToolError("refactor-replay failed (%s): %s" % (rc, out[-2000:]))
            aborted.append((begun, out[-300:]))
            start = begun["ln"] + 1
        raise ToolError("refactor-replay keeps aborting: " + str(aborted[-1]))

    with concurrent.futures.ThreadPoolExecutor(max_workers=10) as ex:
        list(ex.map(run_shard, range(shards)))
    shutil.rmtree(scratch, ignore_errors=True)
    conv = ("refactor.rewrite.list.type", "refactor.rewrite.list.section", "refactor.rewrite.section.list")
    for b, tail in aborted:
        if (b["kind"] in conv) == (pid == "C10"):
            p = save_replay(work, "%s_aborted_%s" % (pid, b["case"].replace(":", "_").replace("/", "_")),
                            {"property": pid, "case": b["case"], "reasons": [["process-aborted-while-resolving-the-action", tail]], "line_text": b.get("line_text")})
            res.violation(p, "%s: the server process aborted (stack overflow?) while resolving the action: %s" % (b["case"], tail.strip()[-120:]))

    def judge(i):
        tr = os.path.join(work, "tr.%d.ndjson" % i)
        with open(tr, "w") as f:
            f.write(json.dumps({"ev": "Config", "devs": devs}) + "\n")
            f.write(open(evs[i]).read())
        r = tlc("Trace_Refactor.tla", "Trace_Refactor.cfg", os.path.join(work, "trr_%d" % i), workers=1, timeout=3000, env={"TRACE": tr},
                trace_mode=True, heap="3g")
        if '"ACCEPTED"' not in r["out"]:
            raise ToolError("Trace_Refactor did not consume %s:\n%s" % (tr, r["out"][-3000:]))
        return i, prints(r["out"], "VERDICT")

    total, mine_total, kinds = 0, 0, {}
    with concurrent.futures.ThreadPoolExecutor(max_workers=5) as ex:
        for i, vs in ex.map(judge, range(shards)):
            byc = None
            for v in vs:
                if v["prop"] != pid:
                    continue
                if v["bad"]:
                    if byc is None:
                        byc = {}
                        for line in open(evs[i]):
                            e = json.loads(line)
                            byc[e["case"]] = e
                    e = byc.get(v["case"], {})
                    p = save_replay(work, "%s_%s" % (pid, v["case"].replace(":", "_").replace("/", "_")),
                                    {"property": pid, "case": v["case"], "reasons": v["bad"], "line_text": e.get("line_text"),
                                     "text_before": e.get("text_before"), "text_after": e.get("text_after"), "round_trip": e.get("rt"),
                                     "created": e.get("created"), "deleted": e.get("deleted")})
                    res.violation(p, "%s: %s" % (v["case"], json.dumps(v["bad"])[:300]))
                else:
                    for fid in v["explained"]:
                        res.known(fid, fmap.get(fid, {}).get("what", ""))
    c10 = ("refactor.rewrite.list.type", "refactor.rewrite.list.section", "refactor.rewrite.section.list")
    samples = []
    for i in range(shards):
        for line in open(evs[i]):
            e = json.loads(line)
            if e.get("ev") != "Action":
                continue
            total += 1
            if (e["kind"] in c10) == (pid == "C10"):
                mine_total += 1
                kinds[e["kind"]] = kinds.get(e["kind"], 0) + 1
                if len(samples) < 3 and e["res"] == "ok":
                    samples.append({"case": e["case"], "line_text": e["line_text"], "text_before": e.get("text_before"), "text_after": e.get("text_after")})
    res.cov["traces_validated_against_impl"] = mine_total
    res.cov["evaluations"] = mine_total
    res.cov["distinct_nontrivial"] = mine_total
    res.cov["actions_by_kind"] = kinds
    res.cov["libraries"] = n
    res.cov["samples"] = samples
    res.cov["exhaustive"] = True
    res.cov["rule"] = ("every library of Gen_Lib_refactor (3 notes from the variant catalogue incl. nested sections, nested mixed lists, code, "
                       "quotes, tables, references incl. dangling and outside any section, a sub-directory) is written to disk and served "
                       "by a path-loaded server (random keys); codeAction is requested at every line of every note, every offered action is "
                       "resolved, its edit applied to a copy and the changed notes projected; where a law names an inverse the inverse "
                       "action is applied on a fresh server; TLC (Trace_Refactor) judges every action")
    return res.finish()


def check_c09(tier):
    return run_actions("C09", tier)


def check_c10(tier):
    return run_actions("C10", tier)


def check_c08(tier):
    pid = "C08"
    work = workdir(pid)
    res = Result(pid, tier, "model_checking")
    vh = build_harness()
    devs = [f["id"] for f in known_findings() if f["status"] == "open" and f["property"] == pid]
    fmap = {f["id"]: f for f in known_findings()}
    libs, n = libraries(res, work, "Gen_Lib_rename.cfg" if tier == "quick" else "Gen_Lib_refactor_thorough.cfg")
    shards = 10
    scratch = os.path.join(work, "scratch")
    evs = [os.path.join(work, "ev.%d.ndjson" % i) for i in range(shards)]
    cmds = [[vh, "rename-replay", libs, evs[i], scratch, "--shard", "%d/%d" % (i, shards)] for i in range(shards)]
    for rc, out in parallel(cmds, 3000):
        if rc != 0:
            raise ToolError("rename-replay failed: " + out[-2000:])
    shutil.rmtree(scratch, ignore_errors=True)

    def judge(i):
        tr = os.path.join(work, "tr.%d.ndjson" % i)
        with open(tr, "w") as f:
            f.write(json.dumps({"ev": "Config", "devs": devs}) + "\n")
            f.write(open(evs[i]).read())
        r = tlc("Trace_Rename.tla", "Trace_Rename.cfg", os.path.join(work, "trn_%d" % i), workers=1, timeout=3000, env={"TRACE": tr},
                trace_mode=True, heap="4g")
        if '"ACCEPTED"' not in r["out"]:
            raise ToolError("Trace_Rename did not consume %s:\n%s" % (tr, r["out"][-3000:]))
        return i, prints(r["out"], "VERDICT")

    total = 0
    outcomes = {}
    with concurrent.futures.ThreadPoolExecutor(max_workers=5) as ex:
        for i, vs in ex.map(judge, range(shards)):
            byc = None
            for v in vs:
                if v["bad"]:
                    if byc is None:
                        byc = {}
                        for line in open(evs[i]):
                            e = json.loads(line)
                            byc[e["case"]] = e
                    e = byc.get(v["case"], {})
                    p = save_replay(work, "C08_%s" % v["case"].replace(":", "_").replace("/", "_"),
                                    {"property": pid, "case": v["case"], "reasons": v["bad"], "url": e.get("url"), "new_name": e.get("new_name"),
                                     "res": e.get("res"), "texts_before": e.get("texts_before"), "texts_after": e.get("texts_after")})
                    res.violation(p, "%s: %s" % (v["case"], json.dumps(v["bad"])[:300]))
                else:
                    for fid in v["explained"]:
                        res.known(fid, fmap.get(fid, {}).get("what", ""))
    sample = None
    for i in range(shards):
        for line in open(evs[i]):
            e = json.loads(line)
            total += 1
            k = "%s/%s" % (e["cls"], e["res"].split(":")[0])
            outcomes[k] = outcomes.get(k, 0) + 1
            if sample is None and e["res"] == "ok":
                sample = {"case": e["case"], "url": e["url"], "new_name": e["new_name"], "texts_before": e["texts_before"], "texts_after": e.get("texts_after")}
    res.cov["traces_validated_against_impl"] = total
    res.cov["evaluations"] = total
    res.cov["distinct_nontrivial"] = total
    res.cov["outcomes"] = outcomes
    res.cov["libraries"] = n
    res.cov["samples"] = [sample] if sample else [{"note": "no successful rename in this run"}]
    res.cov["exhaustive"] = True
    res.cov["rule"] = ("every library of the rename universe x every link occurrence as the rename site (block references, links in "
                       "paragraphs, headings, items, quotes, emphasis, table cells, self links, dangling links, in the root and in a "
                       "sub-directory) x new names {free, free in a sub-directory, taken, the old name}; prepareRename + rename on a "
                       "path-loaded server, the edit applied to a copy, all notes projected; TLC (Trace_Rename) judges every request")
    return res.finish()
