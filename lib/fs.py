"""E-fs: C19 -- `iwe normalize` under syscall-granular faults."""
import json, os, re, shutil, subprocess, resource, signal, hashlib, concurrent.futures
from common import *

MUT_SYSCALLS = ("openat,open,creat,write,pwrite64,writev,close,rename,renameat,renameat2,unlink,unlinkat,chmod,fchmod,"
                "fchmodat,mkdir,mkdirat,rmdir,truncate,ftruncate,link,linkat,symlink,symlinkat,utimensat,fsync,fdatasync")


def content_for(entry):
    tag = (entry["dir"] + "_" + entry["name"]).replace("/", "_").replace(" ", "_")
    c = entry["content"]
    if c == "messy":
        return "* item %s one\n* item two\n\n\n\nPara of %s   with  spaces\nsecond line\n### Deep %s\ntext\n" % (tag, tag, tag)
    if c == "clean":
        return "# Title %s\n\ntext of %s\n" % (tag, tag)
    if c == "empty":
        return ""
    if c == "big":
        return "".join("* bullet %d of %s with some more words to make the line long enough\n" % (i, tag) for i in range(300))
    return "x\n"


def file_name(entry):
    k = entry["kind"]
    n = entry["name"]
    return {"note": n + ".md", "mdmd": n + ".md.md", "txt": n + ".txt", "noext": n, "link": n + ".md", "upper": n + ".MD"}[k]


def rel_path(entry):
    return (entry["dir"] + "/" if entry["dir"] else "") + file_name(entry)


def materialize(tree, root):
    files = {}
    for e in tree:
        p = rel_path(e)
        files[p] = content_for(e).encode()
    if os.path.isdir(root):
        shutil.rmtree(root)
    links = {rel_path(e) for e in tree if e["kind"] == "link"}
    for p, b in files.items():
        full = os.path.join(root, p)
        os.makedirs(os.path.dirname(full), exist_ok=True)
        if p in links:
            # the note is a symbolic link to a file outside the library
            tgt = link_target(root, p)
            os.makedirs(os.path.dirname(tgt), exist_ok=True)
            with open(tgt, "wb") as f:
                f.write(b)
            os.symlink(tgt, full)
            continue
        with open(full, "wb") as f:
            f.write(b)
    return files


def link_target(root, p):
    return os.path.join(os.path.dirname(root), "targets", p.replace("/", "_"))


def snapshot(root):
    out = {}
    for d, _, fs in os.walk(root):
        for f in fs:
            full = os.path.join(d, f)
            rel = os.path.relpath(full, root)
            try:
                out[rel] = open(full, "rb").read()
            except OSError:
                out[rel] = None
    return out


def classify(now, old, new):
    if now is None:
        return "absent"
    if now == old and now == new:
        return "both"
    if now == old:
        return "old"
    if now == new:
        return "new"
    if len(now) == 0:
        return "empty"
    if new is not None and new.startswith(now):
        return "partial"
    return "other"


_exp_cache = {}


def expected_new(vh, notes, files):
    """the text the in-memory export defines for every note (ideal key: path minus exactly one '.md')"""
    ck = json.dumps(sorted(notes))
    if ck in _exp_cache:
        return _exp_cache[ck]
    _exp_cache[ck] = _expected_new(vh, notes, files)
    return _exp_cache[ck]


def _expected_new(vh, notes, files):
    req = {"notes": [{"id": p, "key": p[:-3], "text": files[p].decode()} for p in notes], "refs_extension": ""}
    p = subprocess.run([vh, "fs-export"], input=json.dumps(req), stdout=subprocess.PIPE, stderr=subprocess.DEVNULL, text=True,
                       timeout=120)
    v = json.loads(p.stdout)
    if v.get("panic") or v.get("collisions"):
        return None
    return {k: t.encode() for k, t in v["new"].items()}


def unescape(s):
    # strace C-style escapes inside quotes
    return bytes(s, "latin-1").decode("unicode_escape").encode("latin-1").decode("utf-8", "replace")


LINE = re.compile(r'^(\d+)\s+(\w+)\((.*)\)\s+=\s+(-?\d+|\?)(.*)$')


def parse_strace(path, root):
    """-> list of mutating ops on paths under root: dict(op, path(rel), ok, injected), and how the process ended"""
    ops, end = [], None
    wopen = {}
    rootp = root.rstrip("/") + "/"
    for raw in open(path, errors="replace"):
        raw = raw.rstrip("\n")
        if "+++ killed by" in raw and end is None:
            end = "killed"
        m = re.match(r'^(\d+)\s+\+\+\+ exited with (\d+) \+\+\+', raw)
        if m:
            end_code = int(m.group(2))
            if end is None or end == "exit":
                end = "done" if end_code == 0 else "failed"
            continue
        m = LINE.match(raw)
        if not m:
            continue
        pid, sc, args, ret, rest = m.groups()
        if ret == "?":
            continue  # the process was killed on entering this call: it never happened
        ok = not ret.startswith("-") and ret != "?"
        inj = "(INJECTED)" in rest
        paths = [unescape(x) for x in re.findall(r'"((?:[^"\\]|\\.)*)"', args)]
        fdpaths = [unescape(x) for x in re.findall(r'\d+<((?:[^>\\]|\\.)*)>', args)]

        def rel(p):
            if not p.startswith("/"):
                p = os.path.join(root, p)
            p = os.path.normpath(p)
            return p[len(rootp):] if p.startswith(rootp) else None

        if sc in ("openat", "open", "creat"):
            if not paths:
                continue
            r = rel(paths[0])
            if r is None:
                continue
            if sc == "creat" or re.search(r"O_WRONLY|O_RDWR|O_CREAT|O_TRUNC|O_APPEND", args):
                ops.append({"op": "open_w", "path": r, "ok": ok, "inj": inj, "trunc": "O_TRUNC" in args})
                if ok:
                    wopen[(pid, rest.strip().split("<")[0] if False else ret)] = r
        elif sc in ("write", "pwrite64", "writev"):
            r = rel(fdpaths[0]) if fdpaths else None
            if r is not None:
                ops.append({"op": "write", "path": r, "ok": ok, "inj": inj})
        elif sc == "close":
            r = rel(fdpaths[0]) if fdpaths else None
            fd = args.split("<")[0]
            if r is not None and (pid, fd) in wopen:
                del wopen[(pid, fd)]
                ops.append({"op": "close", "path": r, "ok": ok, "inj": inj})
        elif sc in ("rename", "renameat", "renameat2"):
            if len(paths) >= 2:
                a, b = rel(paths[0]), rel(paths[1])
                if a is not None or b is not None:
                    ops.append({"op": "rename", "path": b, "from": a, "ok": ok, "inj": inj})
        elif sc in ("unlink", "unlinkat", "rmdir"):
            r = rel(paths[0]) if paths else None
            if r is not None:
                ops.append({"op": "unlink", "path": r, "ok": ok, "inj": inj})
        elif sc in ("chmod", "fchmodat"):
            r = rel(paths[0]) if paths else None
            if r is not None:
                ops.append({"op": "chmod", "path": r, "ok": ok, "inj": inj})
        elif sc in ("fchmod", "ftruncate", "fsync", "fdatasync"):
            r = rel(fdpaths[0]) if fdpaths else None
            if r is not None:
                ops.append({"op": {"fchmod": "chmod", "ftruncate": "truncate"}.get(sc, "sync"), "path": r, "ok": ok, "inj": inj})
        elif sc in ("mkdir", "mkdirat", "truncate", "link", "linkat", "symlink", "symlinkat", "utimensat"):
            r = rel(paths[-1]) if paths else None
            if r is not None:
                ops.append({"op": sc, "path": r, "ok": ok, "inj": inj})
    return ops, end


def run_case(iwe, vh, case_id, case, work):
    tree, fault = case["tree"], case["fault"]
    root = os.path.join(work, "run", "c%d" % case_id, "lib")
    files = materialize(tree, root)
    notes = sorted(rel_path(e) for e in tree if e["kind"] in ("note", "mdmd", "link"))
    links = sorted(rel_path(e) for e in tree if e["kind"] == "link")
    mdmd = {rel_path(e) for e in tree if e["kind"] == "mdmd"}
    others = sorted(p for p in files if p not in notes)
    new = expected_new(vh, notes, files)
    if new is None:
        return None
    log = os.path.join(work, "run", "c%d" % case_id, "strace.log")
    base = ["strace", "-f", "-y", "-s", "0", "-o", log, "-e", "trace=" + MUT_SYSCALLS]
    env = dict(os.environ, RUST_BACKTRACE="0", RAYON_NUM_THREADS="2")
    fired = False
    outcome = None
    pre = None
    if fault["type"] == "inject":
        n = len(notes)
        when = fault["ord"] + (n if fault["sys"] in ("openat", "close") else 0)
        what = "signal=KILL" if fault["kind"] == "KILL" else "error=" + fault["kind"]
        sysname = {"rename": "rename,renameat,renameat2", "unlink": "unlink,unlinkat", "chmod": "chmod,fchmod,fchmodat"}.get(fault["sys"], fault["sys"])
        cmd = list(base)
        for p in notes:
            full = os.path.join(root, p)
            cmd += ["-P", full, "-P", full + ".tmp"]
            if p in mdmd:
                cmd += ["-P", full[:-3], "-P", full[:-3] + ".tmp"]
        cmd += ["-e", "inject=%s:%s:when=%d" % (sysname, what, when), iwe, "normalize"]
    elif fault["type"] == "fsize":
        cmd = [iwe, "normalize"]
        lim = fault["ord"]

        ignore = fault.get("kind") == "EFBIG"

        def pre():
            if ignore:
                import signal
                signal.signal(signal.SIGXFSZ, signal.SIG_IGN)       # inherited across exec: writes past the limit return EFBIG
            resource.setrlimit(resource.RLIMIT_FSIZE, (lim, lim))
            resource.setrlimit(resource.RLIMIT_CORE, (0, 0))
    else:
        cmd = base + [iwe, "normalize"]
    try:
        p = subprocess.run(cmd, cwd=root, env=env, stdout=subprocess.DEVNULL, stderr=subprocess.DEVNULL, timeout=120, preexec_fn=pre)
        rc = p.returncode
    except subprocess.TimeoutExpired:
        rc = None
    ops = []
    if fault["type"] != "fsize":
        ops, end = parse_strace(log, root)
        fired = any(o["inj"] for o in ops) or (end == "killed")
        outcome = end or ("done" if rc == 0 else "failed")
    else:
        outcome = "done" if rc == 0 else ("killed" if rc is not None and rc < 0 else "failed")
        fired = rc != 0
    if rc is None:
        outcome = "hang"
    after = snapshot(root)
    ev = {"ev": "Snap", "case": case_id, "fault": fault, "fired": fired, "outcome": outcome, "notes": [], "others": [], "extra": [],
          "muts": []}
    for pth in notes:
        ev["notes"].append({"path": pth, "state": classify(after.get(pth), files[pth], new.get(pth)), "mdmd": pth in mdmd,
                            "alt": pth[:-3] if pth in mdmd else ""})
    # what a symbolic link points at is old or new and whole, whichever way the note was rewritten
    ev["targets"] = []
    for pth in links:
        try:
            now = open(link_target(root, pth), "rb").read()
        except OSError:
            now = None
        ev["targets"].append({"path": pth, "state": classify(now, files[pth], new.get(pth))})
    for pth in others:
        now = after.get(pth)
        ev["others"].append({"path": pth, "state": "old" if now == files[pth] else ("absent" if now is None else "changed")})
    for pth in sorted(after):
        if pth not in files:
            ev["extra"].append({"path": pth, "md": pth.endswith(".md")})
    noteset = set(notes)
    for o in ops:
        pth = o["path"] or ""
        if o["op"] == "close" or o["op"] == "write" and False:
            continue
        if pth in noteset:
            cls = "note"
        elif pth.endswith(".tmp") and pth[:-4] in noteset:
            cls = "tmp"
        elif pth in files:
            cls = "other"
        elif pth.endswith(".md"):
            cls = "extra_md"
        else:
            cls = "extra"
        o["cls"] = cls
        if o["op"] != "write":
            ev["muts"].append({"op": o["op"], "path": pth, "cls": cls})
    # de-duplicate muts (keeps the event small)
    seen, mm = set(), []
    for m_ in ev["muts"]:
        k = (m_["op"], m_["path"])
        if k not in seen:
            seen.add(k)
            mm.append(m_)
    ev["muts"] = mm
    sys_events = to_sys_events(ops, notes, outcome) if fault["type"] != "fsize" else None
    shutil.rmtree(os.path.join(work, "run", "c%d" % case_id), ignore_errors=True)
    return ev, sys_events


def to_sys_events(ops, notes, outcome):
    """strace ops -> events of Trace_Fs (implementation-shaped)"""
    noteset = set(notes)
    alt = {n[:-3]: n for n in notes if n.endswith(".md.md")}  # x.md -> x.md.md (key rule "trimall")
    evs = [{"ev": "Reset", "notes": sorted(notes), "mdmd": sorted(n for n in notes if n.endswith(".md.md"))}, {"ev": "Start"}]
    for o in ops:
        pth = o["path"] or ""
        if pth in noteset:
            note, role = pth, "note"
        elif pth.endswith(".tmp") and pth[:-4] in alt:
            note, role = alt[pth[:-4]], "tmp"
        elif pth in alt:
            note, role = alt[pth], "note"
        elif pth.endswith(".tmp") and pth[:-4] in noteset:
            note, role = pth[:-4], "tmp"
        else:
            note, role = pth, "foreign"
        if o["op"] == "open_w":
            evs.append({"ev": "open_w" if o["ok"] else "open_w_failed", "note": note, "role": role})
        elif o["op"] in ("write", "close", "rename", "chmod"):
            evs.append({"ev": o["op"] if o["ok"] else "failed_call", "note": note, "role": role})
        elif o["op"] == "unlink":
            evs.append({"ev": "unlink", "note": note, "role": role})
        else:
            evs.append({"ev": "foreign_" + o["op"], "note": note, "role": role})
    evs.append({"ev": "Exit", "outcome": outcome})
    return evs


def check_c19(tier):
    pid = "C19"
    work = workdir(pid)
    res = Result(pid, tier, "fault_enumeration")
    vh = build_harness()
    iwe = build_iwe_binary()
    # 1. the protocol design, model-checked: repaired protocol holds, pinned protocol and key rule fail
    r = tlc("MC_Fs.tla", "MC_Fs_fixed.cfg", os.path.join(work, "mc_fixed"), workers=2, timeout=300, coverage=True)
    if not tlc_ok(r):
        res.violation(save_replay(work, "design", {"tlc_output": r["out"][-6000:]}), "TLC: Fs.tla (tmprename) violates an invariant")
    res.add_tlc("MC_Fs_fixed.cfg", r)
    for cfg in ("MC_Fs_truncate.cfg", "MC_Fs_trimall.cfg"):
        rr = tlc("MC_Fs.tla", cfg, os.path.join(work, "mc_" + cfg), workers=2, timeout=300)
        if "is violated" not in rr["out"]:
            raise ToolError(cfg + " no longer fails: the spec lost its teeth")
    # 2. trees x fault plans from TLC
    cfg = "Gen_Fs_quick.cfg" if tier == "quick" else "Gen_Fs_thorough.cfg"
    g = tlc("Gen_Fs.tla", cfg, os.path.join(work, "gen"), workers=4, timeout=900, heap="6g")
    res.add_tlc("gen:" + cfg, g)
    cases = prints(g["out"], "CASE")
    if not cases:
        raise ToolError("Gen_Fs produced no case")
    if tier == "thorough":
        # all 2-entry trees with every fault, plus a seeded sample of the 3-entry trees
        import random
        rnd = random.Random(seed())
        small = [c for c in cases if len(c["tree"]) <= 2]
        big = [c for c in cases if len(c["tree"]) > 2]
        rnd.shuffle(big)
        cases = small + big[:30000]
    # canonical order
    cases.sort(key=lambda c: json.dumps(c, sort_keys=True))
    events, sys_by_tree = [], {}
    with concurrent.futures.ThreadPoolExecutor(max_workers=12) as ex:
        futs = {ex.submit(run_case, iwe, vh, i, c, work): i for i, c in enumerate(cases)}
        for fu in concurrent.futures.as_completed(futs):
            i = futs[fu]
            out = fu.result()
            if out is None:
                continue
            ev, sysev = out
            events.append(ev)
            if sysev is not None:
                key = json.dumps(sorted(rel_path(e) for e in cases[i]["tree"]))
                sys_by_tree.setdefault(key, []).append((i, sysev))
    events.sort(key=lambda e: e["case"])
    devs = [f["id"] for f in open_findings(pid)]
    snap = os.path.join(work, "snap.ndjson")
    with open(snap, "w") as f:
        f.write(json.dumps({"ev": "Config", "devs": devs}) + "\n")
        for e in events:
            f.write(json.dumps(e) + "\n")
    r = tlc("Trace_FsSnap.tla", "Trace_FsSnap.cfg", os.path.join(work, "tr_snap"), workers=1, timeout=1800, env={"TRACE": snap},
            trace_mode=True, heap="8g")
    if '"ACCEPTED"' not in r["out"]:
        raise ToolError("Trace_FsSnap did not consume the whole trace:\n" + r["out"][-3000:])
    by_case = {e["case"]: e for e in events}
    for v in prints(r["out"], "VERDICT"):
        if v["bad"]:
            p = save_replay(work, "C19_case%d" % v["case"], {"property": pid, "reasons": v["bad"], "case": cases[v["case"]],
                                                              "observed": by_case[v["case"]]})
            res.violation(p, json.dumps(v["bad"])[:300])
        else:
            for fid in v["explained"]:
                fnd = [f for f in open_findings(pid) if f["id"] == fid]
                res.known(fid, fnd[0]["what"] if fnd else "")
    fired = sum(1 for e in events if e["fired"])
    res.cov["evaluations"] = len(events)
    res.cov["distinct_nontrivial"] = fired
    res.cov["fault_runs_fired"] = fired
    res.cov["outcomes"] = {o: sum(1 for e in events if e["outcome"] == o) for o in sorted({e["outcome"] for e in events})}
    res.cov["rule"] = ("every (tree, fault plan) pair of Gen_Fs within the bounds is one run of the real `iwe normalize` binary built from "
                       "/repo under strace fault injection (error or SIGKILL at the k-th openat/write/close/rename/unlink/chmod of the "
                       "write phase) or RLIMIT_FSIZE; non-trivial = the injected fault actually fired")
    res.cov["samples"] = [{"case": cases[e["case"]], "observed": e} for e in events if e["fired"]][:3]
    res.cov["exhaustive"] = tier == "quick"
    # 3. syscall traces validated against Fs.tla (implementation-shaped; rejections are drift, not verdicts)
    drift, ntr = 0, 0
    trees = sorted(sys_by_tree)[: (6 if tier == "quick" else 40)]
    for ti, key in enumerate(trees):
        notes = [p for p in json.loads(key) if p.endswith(".md")]
        runs = sorted(sys_by_tree[key])[: 200]
        tf = os.path.join(work, "sys_%d.ndjson" % ti)
        with open(tf, "w") as f:
            for _, evs in runs:
                for e in evs:
                    f.write(json.dumps(e) + "\n")
        rr = trace_fs(work, ti, notes, tf)
        ntr += len(runs)
        if '"ACCEPTED"' not in rr["out"]:
            drift += 1
            res.cov.setdefault("drift_detail", []).append({"tree": notes, "tlc": rr["out"][-600:]})
    res.cov["traces_validated_against_impl"] = ntr
    res.cov["drift"] = drift
    res.assumptions += ["strace fault injection and RLIMIT_FSIZE stand for disk-full/quota/IO errors and kills; power loss (fsync ordering) is out of scope",
                        "the expected new text is Graph::import/export of the same texts run in-process (ideal keys)"]
    return res.finish()


def trace_fs(work, ti, notes, tf):
    """validate a syscall trace against Fs.tla; the tree's notes are read from the trace's first line"""
    return tlc("Trace_Fs.tla", "Trace_Fs.cfg", os.path.join(work, "tr_sys_%d" % ti), workers=1, timeout=600, env={"TRACE": tf},
               trace_mode=True, heap="2g")
