"""E-router: C11 (no notification lost) and C12 (exactly one response, server keeps serving)."""
import json, os
from common import *

C11_REASONS = {"lost-notification", "stale-read", "message-dropped-by-loop", "invented-text"}
C12_REASONS = {"no-response", "duplicate-response", "error-for-valid-request", "response-to-nothing", "unclean-exit",
               "wrong-answer-after-earlier-requests"}


def attribute(reason):
    tag = reason[0]
    if tag in C11_REASONS:
        return {"C11"}
    if tag in C12_REASONS:
        return {"C12"}
    if tag == "server-stuck":
        return {"C11", "C12"}
    return {"C11", "C12"}


def model_check(res, work, tier, pid):
    """TLC on the implementation-shaped spec: repaired design must hold, pinned design must fail"""
    cfgs = [("MC_Router_fixed.cfg", 2)] if tier == "quick" else [("MC_Router_fixed.cfg", 2), ("MC_Router_fixed_safety.cfg", 8)]
    if tier == "quick":
        cfgs.append(("MC_Router_fixed_safety.cfg", 8))
    for cfg, w in cfgs:
        r = tlc("MC_Router.tla", cfg, os.path.join(work, "mc_" + cfg), workers=w, timeout=900, coverage=(tier == "thorough"))
        if not tlc_ok(r):
            # the design itself violates the property: that is a finding about the spec/design, reported as violation
            p = save_replay(work, "design_" + cfg, {"tlc_output": r["out"][-6000:], "cfg": cfg})
            res.violation(p, "TLC: the modelled design violates an invariant/property in %s" % cfg)
        res.add_tlc(cfg, r)
    # standing demonstration: the design of the pinned commit must be rejected by TLC
    r = tlc("MC_Router.tla", "MC_Router_prefix.cfg", os.path.join(work, "mc_prefix"), workers=2, timeout=300)
    if "is violated" not in r["out"]:
        raise ToolError("MC_Router_prefix.cfg no longer fails: the spec lost its teeth\n" + r["out"][-2000:])
    res.cov["prefix_design_rejected_by_tlc"] = True


def gen(module, cfg, tag, work, name, timeout=600, simulate=None, depth=None, workers=4, seed_=None, limit=None):
    r = tlc(module, cfg, os.path.join(work, "gen_" + name), workers=workers, timeout=timeout, simulate=simulate, depth=depth,
            seed_=seed_, heap="6g")
    if "Error:" in r["out"] and "SCHED" not in r["out"] and "SEQ" not in r["out"]:
        raise ToolError("generator failed: " + r["out"][-3000:])
    path = os.path.join(work, name + ".ndjson")
    vals = prints(r["out"], tag)
    # de-duplicate (simulation revisits)
    seen, uniq = set(), []
    for v in vals:
        s = json.dumps(v, separators=(",", ":"))
        if s not in seen:
            seen.add(s)
            uniq.append(s)
    if limit and len(uniq) > limit:
        step = len(uniq) // limit
        uniq = uniq[::step][:limit]
    with open(path, "w") as f:
        f.write("\n".join(uniq) + ("\n" if uniq else ""))
    return path, len(uniq), r


def tests_trace(res, work, pid):
    """trace validation of the repository's own tests: the iwes test-suite is run with the hooks compiled in and
    IWE_VERIF_TRACE set (crates/iwes/src/router/verif.rs writes every hook point to that file), and the recorded executions of
    every server the tests started are validated line by line against Router.tla (Trace_Router)"""
    trace = os.path.join(work, "tests_trace.ndjson")
    if os.path.exists(trace):
        os.remove(trace)
    tgt = os.path.join(HARNESS, "target", "iwes-tests")
    env = {"RUSTFLAGS": "--cfg iwe_verif --check-cfg cfg(iwe_verif)", "IWE_VERIF_TRACE": trace, "CARGO_TARGET_DIR": tgt,
           "CARGO_NET_OFFLINE": "true"}
    rc, out, _ = run(["cargo", "test", "-p", "iwes", "--offline", "--", "--test-threads=1"], 3000, cwd=REPO, env=env)
    if rc != 0 or not os.path.exists(trace):
        raise ToolError("the iwes test-suite did not run with the hooks compiled in:\n" + out[-3000:])
    lines = [json.loads(l) for l in open(trace) if l.strip()]
    outl, ncases = convert_tests_trace(lines)
    conv = os.path.join(work, "tests.events.0.ndjson")
    with open(conv, "w") as f:
        f.write("\n".join(json.dumps(x) for x in outl) + "\n")
    validate_impl_trace(res, work, conv, "tests", 0, pid, cfg="Trace_Router_tests.cfg")
    res.cov["repo_tests_servers"] = ncases
    res.cov["repo_tests_hook_events"] = len(lines)


def convert_tests_trace(lines):
    """hook lines of the test run -> one case per server in the vocabulary of Trace_Router"""
    # One file for all servers of the (sequential, --test-threads=1) test run, without a server identity on the lines: a test drops
    # its server without joining it, so the tail of server k (its LoopExit, the last gates of its workers) can be written after
    # the RouterNew of server k+1.  Server k+1 cannot exit before server k did, and it cannot reach a gate of a request it has
    # not taken, so: a LoopExit while the previous server has none yet, and a gate of a request that the current server has not
    # taken but the previous one has not finished, belong to the previous server.
    cases, cur, prev = [], None, None
    taken, prev_open, prev_exited = set(), set(), True
    for e in lines:
        if e["ev"] == "RouterNew":
            prev, cur = cur, []
            cases.append(cur)
            prev_exited = prev is None or any(x["ev"] == "LoopExit" for x in prev)
            prev_open = set() if prev is None else ({x["id"] for x in prev if x["ev"] == "ReqTaken"} -
                                                    {x["id"] for x in prev if x["ev"] == "Gate" and x["at"] in ("WReturn", "WPanic")})
            taken = set()
        elif cur is not None:
            if e["ev"] == "LoopExit" and not prev_exited:
                prev.append(e)
                prev_exited = True
            elif e["ev"] == "Gate" and e["id"] not in taken and e["id"] in prev_open:
                prev.append(e)
                if e["at"] in ("WReturn", "WPanic"):
                    prev_open.discard(e["id"])
            else:
                if e["ev"] == "ReqTaken":
                    taken.add(e["id"])
                cur.append(e)
    outl = []
    for ci, evs in enumerate(cases):
        outl.append({"ev": "Reset", "case": ci})
        rmap, nnot, skip = {}, 0, False
        computed = {e["id"] for e in evs if e["ev"] == "Gate" and e["at"] == "WComputed"}

        def rid(i):
            if i not in rmap:
                rmap[i] = len(rmap) + 1
                # (the client's send is not a hook point: it is placed right before the first sign of the request;
                # the class is what the recorded execution later shows - a result was computed, or not)
                outl.append({"ev": "SendReq", "r": rmap[i], "key": "a", "cls": "ok" if i in computed else "panic"})
            return rmap[i]
        for e in evs:
            if e["ev"] == "ReqTaken":
                outl.append({"ev": "ReqTaken", "r": rid(e["id"])})
            elif e["ev"] == "Gate":
                outl.append({"ev": "Gate", "at": e["at"], "r": rid(e["id"])})
            elif e["ev"] == "NotifBegin":
                if e["method"] in ("textDocument/didChange", "textDocument/didSave"):
                    nnot += 1
                    outl.append({"ev": "SendNot", "n": nnot, "key": "a"})
                    outl.append({"ev": "NotifBegin", "method": e["method"]})
                    skip = False
                else:
                    skip = True
            elif e["ev"] == "NotifDone":
                if not skip:
                    outl.append(e)
                skip = False
            else:
                outl.append(e)
    outl.append({"ev": "End"})
    return outl, len(cases)


def validate_impl_trace(res, work, path, name, i, pid, cfg="Trace_Router.cfg"):
    """recorded hook-level trace of the real Router must be a behaviour of Router.tla (Trace_Router); a rejected line is a
    violation of the case it belongs to, and validation resumes at the next case"""
    lines = open(path).read().splitlines()
    start = 0
    for attempt in range(6):
        tr = path if start == 0 else os.path.join(work, "trr_rest_%s_%d.ndjson" % (name, i))
        if start:
            with open(tr, "w") as f:
                f.write("\n".join(lines[start:]) + "\n")
        r = tlc("Trace_Router.tla", cfg, os.path.join(work, "trr_%s_%d" % (name, i)), workers=1, timeout=900,
                env={"TRACE": tr}, trace_mode=True)
        res.cov["impl_trace_states"] = res.cov.get("impl_trace_states", 0) + r["distinct"]
        if '"ACCEPTED"' in r["out"]:
            res.cov["impl_trace_lines"] = res.cov.get("impl_trace_lines", 0) + len(lines) - start
            return
        rej = prints(r["out"], "REJECTED")
        inv = "is violated" in r["out"]
        if not rej and not inv:
            raise ToolError("Trace_Router failed on %s:\n%s" % (tr, r["out"][-3000:]))
        consumed = rej[0]["consumed"] if rej else r["distinct"] - 1
        at = start + consumed                      # index of the line that no action of Router.tla explains
        is_reset = lambda x: '"ev":"Reset"' in x.replace('": "', '":"')
        first = max(j for j in range(at + 1) if j < len(lines) and is_reset(lines[j])) if any(is_reset(x) for x in lines[:at + 1]) else 0
        nxt = next((j for j in range(at + 1, len(lines)) if is_reset(lines[j])), len(lines))
        case = json.loads(lines[first]).get("case") if first < len(lines) else None
        what = ("Router.tla invariant violated in the recorded trace" if inv and not rej else
                "recorded line is not a step of Router.tla: %s" % json.dumps(rej[0]["line"]))
        p = save_replay(work, "%s_%s_impltrace_case%s" % (pid, name, case),
                        {"property": pid, "reason": what, "line_in_case": at - first, "events": [json.loads(x) for x in lines[first:nxt]][:400]})
        res.violation(p, "%s case %s: %s" % (name, case, what[:300]))
        res.cov["impl_trace_lines"] = res.cov.get("impl_trace_lines", 0) + (nxt - start)
        if nxt >= len(lines):
            return
        start = nxt


def replay_and_judge(res, work, sub, inp, name, shards, extra, pid, timeout=1200):
    vh = build_harness()
    outs = [os.path.join(work, "%s.events.%d.ndjson" % (name, i)) for i in range(shards)]
    cmds = [[vh, sub, inp, outs[i], "--shard", "%d/%d" % (i, shards)] + extra for i in range(shards)]
    for rc, out in parallel(cmds, timeout):
        if rc != 0:
            raise ToolError("harness %s failed (%s): %s" % (sub, rc, out[-2000:]))
    if sub == "router-replay":
        import concurrent.futures
        with concurrent.futures.ThreadPoolExecutor(max_workers=4) as ex:
            list(ex.map(lambda i: validate_impl_trace(res, work, outs[i], name, i, pid), range(shards)))
    nviol = 0
    for i, o in enumerate(outs):
        r = tlc("Trace_RouterIdeal.tla", "Trace_RouterIdeal.cfg", os.path.join(work, "tr_%s_%d" % (name, i)), workers=1,
                timeout=900, env={"TRACE": o}, trace_mode=True)
        if '"ACCEPTED"' not in r["out"]:
            raise ToolError("trace validation did not consume the whole trace:\n" + r["out"][-3000:])
        res.cov["trace_states"] = res.cov.get("trace_states", 0) + r["distinct"]
        verdicts = prints(r["out"], "VERDICT")
        cases = None
        for v in verdicts:
            mine = [b for b in v["bad"] if pid in attribute(b)]
            if not mine:
                continue
            if cases is None:
                cases = split_cases(o)
            p = save_replay(work, "%s_%s_case%s" % (pid, name, v["case"]),
                            {"property": pid, "reasons": mine, "events": cases.get(v["case"]),
                             "rerun": "./check %s --replay <this file>" % pid})
            res.violation(p, "%s: %s" % (name, json.dumps(mine)))
            nviol += 1
    return nviol


def stdio_sessions(res, work, pid):
    """the shipped `iwes` binary driven over stdio (what an editor does): a session of valid requests, requests that make a
    handler panic (unknown files with short, long and non-ASCII names), an edit, a probe, shutdown and exit; the client-side
    events are judged by Trace_RouterIdeal like every replayed schedule (one response per request, valid requests answered
    from a state that includes the edit, clean exit)"""
    import subprocess, shutil, threading, queue
    iwes = build_iwes_binary()
    lib = os.path.join(work, "stdio_lib")
    shutil.rmtree(lib, ignore_errors=True)
    os.makedirs(os.path.join(lib, ".iwe"))
    open(os.path.join(lib, "a.md"), "w").write("# v0\n\ntext [b](b)\n")
    open(os.path.join(lib, "b.md"), "w").write("# bee\n")
    uri = lambda name: "file://" + os.path.join(lib, name)
    sessions = []
    unknown = {"short": "nosuch.md", "long": "x" * 200 + ".md", "accent": "\u00e9" * 100 + ".md", "cjk": "a" + "\u65e5" * 80 + ".md",
               "astral": "ab" + "\U0001F600" * 50 + ".md"}
    for label, fname in unknown.items():
        for method in ("textDocument/codeAction", "textDocument/formatting", "textDocument/inlayHint"):
            sessions.append((label, method, fname))
    events = []
    for ci, (label, method, fname) in enumerate(sessions):
        events.append({"ev": "Reset", "case": ci})
        proc = subprocess.Popen([iwes], cwd=lib, stdin=subprocess.PIPE, stdout=subprocess.PIPE, stderr=subprocess.DEVNULL)
        inbox = queue.Queue()

        def reader(p=proc, q=inbox):
            try:
                while True:
                    head = b""
                    while not head.endswith(b"\r\n\r\n"):
                        c = p.stdout.read(1)
                        if not c:
                            q.put(None)
                            return
                        head += c
                    n = int([h for h in head.decode().split("\r\n") if h.lower().startswith("content-length")][0].split(":")[1])
                    q.put(json.loads(p.stdout.read(n)))
            except Exception:
                q.put(None)
        threading.Thread(target=reader, daemon=True).start()

        def send(msg, p=proc):
            body = json.dumps(msg).encode()
            try:
                p.stdin.write(b"Content-Length: %d\r\n\r\n" % len(body) + body)
                p.stdin.flush()
            except Exception:
                pass

        def wait_for(rid, q=inbox, budget=20):
            """responses that arrive until the one for `rid` (or the stream ends / the budget runs out)"""
            got = []
            t0 = time.time()
            while time.time() - t0 < budget:
                try:
                    m = q.get(timeout=0.5)
                except queue.Empty:
                    continue
                if m is None:
                    return got, False
                if "id" in m and "method" not in m:
                    got.append(m)
                    if m["id"] == rid:
                        return got, True
            return got, True

        send({"jsonrpc": "2.0", "id": 0, "method": "initialize", "params": {"capabilities": {}, "clientInfo": {"name": "stdio-driver"}}})
        wait_for(0)
        send({"jsonrpc": "2.0", "method": "initialized", "params": {}})
        ver = lambda m: max([int(x) for x in re.findall(r"\bv(\d+)\b", json.dumps(m.get("result")))] or [0])
        reqs = [
            (1, "workspace/symbol", {"query": ""}, "ok", None),
            (2, method, ({"textDocument": {"uri": uri(fname)}, "range": {"start": {"line": 0, "character": 0}, "end": {"line": 0, "character": 0}}, "context": {"diagnostics": []}}
                         if method != "textDocument/formatting" else {"textDocument": {"uri": uri(fname)}, "options": {"tabSize": 2, "insertSpaces": True}}), "panic", None),
            (None, "textDocument/didChange", {"textDocument": {"uri": uri("a.md"), "version": 1}, "contentChanges": [{"text": "# v1\n\ntext [b](b)\n"}]}, None, 1),
            (3, "workspace/symbol", {"query": ""}, "ok", None),
            (4, "textDocument/definition", {"textDocument": {"uri": uri("a.md")}, "position": {"line": 2, "character": 7}}, "ok", None),
        ]
        alive = True
        for rid, m, params, cls, n in reqs:
            if rid is None:
                events.append({"ev": "SendNot", "n": n, "key": "a"})
                send({"jsonrpc": "2.0", "method": m, "params": params})
                continue
            events.append({"ev": "SendReq", "r": rid, "key": "a", "cls": cls})
            send({"jsonrpc": "2.0", "id": rid, "method": m, "params": params})
            got, alive = wait_for(rid)
            for g in got:
                seen = ver(g) if m == "workspace/symbol" else (1 if rid > 2 else 0)
                events.append({"ev": "Resp", "r": g["id"], "err": "error" in g, "seen": seen})
            if not alive:
                break
        events.append({"ev": "Quiescent"})
        send({"jsonrpc": "2.0", "id": 99, "method": "shutdown", "params": None})
        wait_for(99, budget=5)
        send({"jsonrpc": "2.0", "method": "exit", "params": None})
        try:
            rc = proc.wait(timeout=10)
        except subprocess.TimeoutExpired:
            proc.kill()
            rc = -9
        events.append({"ev": "Exit", "ok": rc == 0 and alive})
    events.append({"ev": "End"})
    path = os.path.join(work, "stdio.events.0.ndjson")
    with open(path, "w") as f:
        f.write("\n".join(json.dumps(e) for e in events) + "\n")
    r = tlc("Trace_RouterIdeal.tla", "Trace_RouterIdeal.cfg", os.path.join(work, "tr_stdio"), workers=1, timeout=900, env={"TRACE": path},
            trace_mode=True)
    if '"ACCEPTED"' not in r["out"]:
        raise ToolError("trace validation did not consume the stdio trace:\n" + r["out"][-3000:])
    cases = None
    for v in prints(r["out"], "VERDICT"):
        mine = [b for b in v["bad"] if pid in attribute(b)]
        if not mine:
            continue
        if cases is None:
            cases = split_cases(path)
        label, method, fname = sessions[v["case"]]
        p = save_replay(work, "%s_stdio_case%s" % (pid, v["case"]), {"property": pid, "reasons": mine, "session": {"unknown_file": fname, "method": method},
                                                                      "events": cases.get(v["case"])})
        res.violation(p, "iwes binary over stdio, %s on an unknown file with a %s name: %s" % (method, label, json.dumps(mine)))
    res.cov["stdio_sessions"] = len(sessions)
    shutil.rmtree(lib, ignore_errors=True)


def common_assumptions(res):
    res.assumptions += [
        "hooks (cfg iwe_verif) mark the real program points; the Arc clone of a worker is considered released when its OS thread is gone (/proc/self/task)",
        "responses are counted after the worker thread has ended, so a missing response is a fact, not a timeout",
        "the in-memory lsp_server::Connection behaves like the stdio transport (FIFO in both directions)",
    ]


def check_c11(tier):
    pid = "C11"
    work = workdir(pid)
    res = Result(pid, tier, "model_checking")
    common_assumptions(res)
    model_check(res, work, tier, pid)
    scheds = []
    if tier == "quick":
        scheds.append(("small1", "Gen_Router_small.cfg", None, None, ["--keys", "a"]))
        scheds.append(("sim2", "Gen_Router_sim.cfg", "num=1500", 60, ["--keys", "a,b"]))
    else:
        scheds.append(("small1", "Gen_Router_small.cfg", None, None, ["--keys", "a"]))
        scheds.append(("small2", "Gen_Router_small2.cfg", None, None, ["--keys", "a,b"]))
        scheds.append(("sim2", "Gen_Router_sim.cfg", "num=30000", 80, ["--keys", "a,b"]))
    total = 0
    for name, cfg, sim, depth, extra in scheds:
        path, n, r = gen("MC_Gen_Router.tla", cfg, "SCHED", work, name, simulate=sim, depth=depth, workers=(1 if sim else 4),
                         seed_=seed() if sim else None, timeout=1500)
        if not sim:
            res.add_tlc("gen:" + cfg, r)
        if n == 0:
            raise ToolError("generator %s produced no schedule" % cfg)
        total += n
        if len(res.cov["samples"]) < 3:
            res.cov["samples"].append({"schedule": json.loads(open(path).readline()), "from": cfg})
        replay_and_judge(res, work, "router-replay", path, name, 8, extra, pid)
    # the same schedules with time passing: a notification that meets live workers must still be applied when those
    # workers stay where they are for seconds (a loop that waits only for a grace period loses it)
    picked, chained = [], []
    for line in open(os.path.join(work, "small1.ndjson")):
        sc = json.loads(line)
        for i in range(len(sc) - 2):
            if sc[i][0] == "not" and sc[i + 1][0] == "take" and sc[i + 2][0] == "w":
                # ... preferably followed, once the workers are gone, by another notification and then a request
                rest = [st[0] for st in sc[i + 3:]]
                if "not" in rest and "req" in rest[rest.index("not"):]:
                    chained.append(line)
                else:
                    picked.append(line)
                break
    rnd = __import__("random").Random(seed())
    rnd.shuffle(picked)
    rnd.shuffle(chained)
    ndwell = 12 if tier == "quick" else 48
    picked = chained[:ndwell * 2 // 3] + picked
    dpath = os.path.join(work, "dwell.ndjson")
    with open(dpath, "w") as f:
        f.writelines(picked[:ndwell])
    if not picked:
        raise ToolError("no schedule in which a notification meets a live worker")
    replay_and_judge(res, work, "router-replay", dpath, "dwell", 8, ["--keys", "a", "--dwell-ms", "2500" if tier == "quick" else "8000"], pid)
    dwells = sum(open(os.path.join(work, "dwell.events.%d.ndjson" % i)).read().count('"ev":"Dwell"') for i in range(8))
    if dwells == 0:
        raise ToolError("the dwell schedules never held a worker while a notification was taken")
    if tier == "thorough":
        tests_trace(res, work, pid)
    res.cov["dwell_schedules"] = min(ndwell, len(picked))
    res.cov["dwells"] = dwells
    total += min(ndwell, len(picked))
    res.cov["traces_validated_against_impl"] = total
    res.cov["evaluations"] = total
    res.cov["distinct_nontrivial"] = total
    res.cov["exhaustive"] = True
    res.cov["rule"] = ("every complete behaviour of Gen_Router (client sends, loop takes, worker compute/respond/exit steps, "
                       "notification applies) within the stated bounds is one schedule, replayed on the real Router through "
                       "pause hooks; distinct = distinct step sequences; all contain at least one request and TLC "
                       "judges every replayed trace with Trace_RouterIdeal")
    return res.finish()


def check_c12(tier):
    pid = "C12"
    work = workdir(pid)
    res = Result(pid, tier, "model_checking")
    common_assumptions(res)
    res.assumptions.append("`generate` is exercised with a model whose api_key_env is empty (no network call on that path)")
    model_check(res, work, tier, pid)
    total = 0
    # request sequences over the whole method x parameter-class alphabet
    seqs = [("seq1", "Gen_Requests_1.cfg", None, None), ("seq2", "Gen_Requests_2.cfg", None, None)]
    # long sessions: one server answers 40 requests in a row (resources that leak per failed request run out)
    seqs.append(("seqlong", "Gen_Requests_long.cfg", "num=24" if tier == "quick" else "num=200", 41))
    if tier == "thorough":
        seqs.append(("seq3sim", "Gen_Requests_sim.cfg", "num=6000", 6))
    for name, cfg, sim, depth in seqs:
        path, n, r = gen("Gen_Requests.tla", cfg, "SEQ", work, name, simulate=sim, depth=depth, workers=(1 if sim else 4),
                         seed_=seed() if sim else None, limit=(None if name != "seqlong" else 48 if tier == "quick" else 1200))
        if not sim:
            res.add_tlc("gen:" + cfg, r)
        if n == 0:
            raise ToolError("generator %s produced nothing" % cfg)
        total += n
        if len(res.cov["samples"]) < 3:
            res.cov["samples"].append({"request_sequence": json.loads(open(path).readline()), "from": cfg})
        base = os.path.join(work, "baseline.ndjson")
        if name == "seq1":
            replay_and_judge(res, work, "router-seq", path, name, 12, ["--emit-baseline", base], pid)
            with open(base, "w") as bf:
                for i in range(12):
                    if os.path.exists("%s.%d" % (base, i)):
                        bf.write(open("%s.%d" % (base, i)).read())
            res.cov["baseline_answers"] = sum(1 for _ in open(base))
        else:
            replay_and_judge(res, work, "router-seq", path, name, 12, ["--baseline", base], pid)
    # scheduled behaviours with panicking requests
    path, n, r = gen("MC_Gen_Router.tla", "Gen_Router_small.cfg", "SCHED", work, "sched", workers=4)
    res.add_tlc("gen:Gen_Router_small.cfg", r)
    total += n
    res.cov["samples"].append({"schedule": json.loads(open(path).readline())})
    replay_and_judge(res, work, "router-replay", path, "sched", 8, ["--keys", "a"], pid)
    stdio_sessions(res, work, pid)
    if tier == "thorough":
        tests_trace(res, work, pid)
    res.cov["traces_validated_against_impl"] = total
    res.cov["evaluations"] = total
    res.cov["distinct_nontrivial"] = total
    res.cov["exhaustive"] = True
    res.cov["rule"] = ("all sequences of length <= 2 over the 132-element request alphabet of Gen_Requests (method x parameter class), "
                       "each sent to a fresh server and followed by a probe with a known answer, plus every schedule of "
                       "Gen_Router_small with panicking requests; distinct = distinct sequences/schedules")
    return res.finish()
