"""Shared plumbing of the /verif checks: TLC wrappers, harness build, evidence,
known findings, exit codes.  The driver never judges a property: verdicts are
lines printed by TLC (VERDICT / ACCEPTED) which are only counted here."""
import json, os, re, shutil, subprocess, sys, time, hashlib

VERIF = os.path.dirname(os.path.dirname(os.path.abspath(__file__)))
SPEC = os.path.join(VERIF, "spec")
HARNESS = os.path.join(VERIF, "harness")
VH = os.path.join(HARNESS, "target", "release", "vh")
REPO = "/repo"
JAVA_TRACE_OPTS = "-Xss1g -Dtlc2.tool.queue.IStateQueue=StateDeque"


class ToolError(Exception):
    pass


def log(*a):
    print(*a, file=sys.stderr, flush=True)


def seed():
    try:
        return int(os.environ.get("VERIF_SEED", "1"))
    except ValueError:
        return 1


def workdir(pid, clean=True):
    d = os.path.join(VERIF, ".work", pid)
    if clean and os.path.isdir(d):
        shutil.rmtree(d, ignore_errors=True)
    os.makedirs(d, exist_ok=True)
    return d


def run(cmd, timeout, cwd=None, env=None, stdout=None, check=False):
    e = dict(os.environ)
    if env:
        e.update(env)
    t0 = time.time()
    try:
        p = subprocess.run(cmd, cwd=cwd, env=e, timeout=timeout, stdout=subprocess.PIPE if stdout is None else stdout,
                           stderr=subprocess.STDOUT, text=True, errors="replace")
    except subprocess.TimeoutExpired as ex:
        raise ToolError("timeout after %ss: %s" % (timeout, " ".join(map(str, cmd))[:300]))
    if check and p.returncode != 0:
        raise ToolError("command failed (%d): %s\n%s" % (p.returncode, " ".join(map(str, cmd))[:300], (p.stdout or "")[-3000:]))
    return p.returncode, p.stdout or "", time.time() - t0


_built = False


def build_harness():
    """(re)build the harness against /repo's current working tree (path dependencies)."""
    global _built
    if _built:
        return VH
    lock = os.path.join(HARNESS, "Cargo.lock")
    if not os.path.exists(lock):
        shutil.copy(os.path.join(REPO, "Cargo.lock"), lock)
    rc, out, dt = run(["cargo", "build", "--release", "--offline", "--quiet"], 1800, cwd=HARNESS,
                      env={"CARGO_NET_OFFLINE": "true", "RUSTFLAGS": ""} if False else {"CARGO_NET_OFFLINE": "true"})
    if rc != 0:
        # a tree that does not compile is a tool error, not a verdict
        raise ToolError("harness build failed:\n" + out[-4000:])
    _built = True
    return VH


def build_iwe_binary():
    """build the real `iwe` CLI from /repo into the harness' target dir (no hooks needed)"""
    tgt = os.path.join(HARNESS, "target", "iwe-bin")
    rc, out, dt = run(["cargo", "build", "--release", "--offline", "--quiet", "-p", "iwe", "--target-dir", tgt], 1800,
                      cwd=REPO, env={"CARGO_NET_OFFLINE": "true"})
    if rc != 0:
        raise ToolError("iwe build failed:\n" + out[-4000:])
    return os.path.join(tgt, "release", "iwe")


def build_iwes_binary():
    """build the real `iwes` language server from /repo into the harness' target dir (no hooks: the shipped program)"""
    tgt = os.path.join(HARNESS, "target", "iwe-bin")
    rc, out, dt = run(["cargo", "build", "--release", "--offline", "--quiet", "-p", "iwes", "--target-dir", tgt], 1800,
                      cwd=REPO, env={"CARGO_NET_OFFLINE": "true"})
    if rc != 0:
        raise ToolError("iwes build failed:\n" + out[-4000:])
    return os.path.join(tgt, "release", "iwes")


TLC_JAR = "/opt/veriftools/tla/tla2tools.jar:/opt/veriftools/tla/CommunityModules-deps.jar"


def tlc(module, cfg, meta, workers=4, timeout=900, env=None, simulate=None, coverage=False, heap="4g", depth=None,
        trace_mode=False, seed_=None, extra=None, out_file=None):
    """run TLC; returns dict(out, rc, generated, distinct, depth, coverage{action:count}, secs).
    With out_file the output goes to that file (for generators that print hundreds of thousands of lines) and
    `out` holds only its last 20 000 characters; read the file with prints_file()."""
    os.makedirs(meta, exist_ok=True)
    cmd = ["java", "-XX:+UseParallelGC", "-Xmx" + heap]
    if trace_mode:
        cmd += ["-Xss1g", "-Dtlc2.tool.queue.IStateQueue=StateDeque"]
    else:
        cmd += ["-Xss256m"]
    cmd += ["-cp", TLC_JAR, "tlc2.TLC", "-workers", str(workers), "-metadir", meta, "-cleanup", "-noGenerateSpecTE",
            "-config", cfg]
    if simulate:
        cmd += ["-simulate", simulate]
    if depth:
        cmd += ["-depth", str(depth)]
    if seed_ is not None:
        cmd += ["-seed", str(seed_)]
    if coverage:
        cmd += ["-coverage", "1"]
    if extra:
        cmd += extra
    cmd += [module]
    if out_file:
        with open(out_file, "w") as fo:
            rc, _, dt = run(cmd, timeout, cwd=SPEC, env=env, stdout=fo)
        with open(out_file, "rb") as fi:
            fi.seek(0, 2)
            size = fi.tell()
            fi.seek(max(0, size - 20000))
            out = fi.read().decode("utf-8", "replace")
    else:
        rc, out, dt = run(cmd, timeout, cwd=SPEC, env=env)
    res = {"out": out, "rc": rc, "secs": dt, "generated": 0, "distinct": 0, "depth": 0, "coverage": {}}
    m = re.findall(r"(\d[\d,]*) states generated, (\d[\d,]*) distinct states found", out)
    if m:
        res["generated"] = int(m[-1][0].replace(",", ""))
        res["distinct"] = int(m[-1][1].replace(",", ""))
    m = re.search(r"depth of the complete state graph search is (\d+)", out)
    if m:
        res["depth"] = int(m.group(1))
    for a, n in re.findall(r"^<(\w+) line \d+, col \d+ to line \d+, col \d+ of module \w+>: (\d+):(?:\d+)", out, re.M):
        res["coverage"][a] = res["coverage"].get(a, 0) + int(n)
    return res


def tlc_ok(res):
    return res["rc"] == 0 and "Model checking completed. No error has been found." in res["out"] or \
        (res["rc"] == 0 and "Finished in" in res["out"] and "Error:" not in res["out"])


def prints(out, tag):
    """values printed by TLC as <<"TAG", "json">> (one per line) -> list of parsed json"""
    res = []
    pat = '<<"%s", "' % tag
    for line in out.splitlines():
        i = line.find(pat)
        if i < 0:
            continue
        s = line[i + len(pat) - 1:].rstrip()
        if s.endswith(">>"):
            s = s[:-2].rstrip()
        try:
            inner = json.loads(s)  # the TLA+ string literal, JSON-compatible escapes
            res.append(json.loads(inner))
        except Exception:
            raise ToolError("cannot parse TLC print: " + line[:300])
    return res


def prints_file(path, tag):
    """like prints(), but streams the lines of a TLC output file"""
    pat = '<<"%s", "' % tag
    with open(path, errors="replace") as f:
        for line in f:
            i = line.find(pat)
            if i < 0:
                continue
            s = line[i + len(pat) - 1:].rstrip()
            if s.endswith(">>"):
                s = s[:-2].rstrip()
            try:
                yield json.loads(json.loads(s))
            except Exception:
                raise ToolError("cannot parse TLC print: " + line[:300])


def write_prints(out, tag, path):
    vals = prints(out, tag)
    with open(path, "w") as f:
        for v in vals:
            f.write(json.dumps(v, separators=(",", ":")) + "\n")
    return len(vals)


def known_findings():
    p = os.path.join(VERIF, "known_findings.json")
    if not os.path.exists(p):
        return []
    return json.load(open(p))


def open_findings(pid):
    return [f for f in known_findings() if f["property"] == pid and f["status"] == "open"]


class Result:
    """collects what a check covered and what it found"""

    def __init__(self, pid, tier, level):
        self.pid, self.tier, self.level = pid, tier, level
        self.t0 = time.time()
        self.cov = {"states": 0, "transitions": 0, "traces_validated_against_impl": 0, "evaluations": 0,
                    "distinct_nontrivial": 0, "samples": [], "exhaustive": False, "rule": "", "tlc_runs": [],
                    "known_findings_seen": [], "drift": 0}
        self.assumptions = []
        self.violations = []      # (replay path, summary)
        self.known_seen = {}      # finding id -> what
        self.tool_errors = []

    def add_tlc(self, name, res):
        self.cov["states"] += res["distinct"]
        self.cov["transitions"] += res["generated"]
        self.cov["tlc_runs"].append({"name": name, "distinct": res["distinct"], "generated": res["generated"],
                                     "depth": res["depth"], "secs": round(res["secs"], 1),
                                     "coverage": res["coverage"] or None})

    def violation(self, replay, summary):
        self.violations.append((replay, summary))

    def known(self, fid, what):
        self.known_seen[fid] = what

    def finish(self):
        self.cov["known_findings_seen"] = sorted(self.known_seen)
        ev = {"property_id": self.pid, "tier": self.tier, "seed": seed(), "level": self.level, "coverage": self.cov,
              "assumptions": self.assumptions, "wall_s": round(time.time() - self.t0, 1),
              "violations": len(self.violations)}
        os.makedirs(os.path.join(VERIF, "evidence"), exist_ok=True)
        with open(os.path.join(VERIF, "evidence", self.pid + ".json"), "w") as f:
            json.dump(ev, f, indent=1, sort_keys=True)
            f.write("\n")
        for fid, what in sorted(self.known_seen.items()):
            print("KNOWN-FINDING: property=%s %s %s" % (self.pid, fid, what))
        for replay, summary in self.violations[:20]:
            print("VIOLATION property=%s replay=%s" % (self.pid, replay))
            print("  " + summary[:400])
        if len(self.violations) > 20:
            print("  ... and %d more violations" % (len(self.violations) - 20))
        if self.violations:
            return 1
        print("OK property=%s tier=%s states=%d transitions=%d impl_traces=%d evaluations=%d wall=%.0fs" % (
            self.pid, self.tier, self.cov["states"], self.cov["transitions"], self.cov["traces_validated_against_impl"],
            self.cov["evaluations"], time.time() - self.t0))
        return 0


def save_replay(work, name, obj):
    d = os.path.join(work, "replay")
    os.makedirs(d, exist_ok=True)
    p = os.path.join(d, name + ".json")
    with open(p, "w") as f:
        json.dump(obj, f, indent=1)
    return p


def split_cases(path):
    """flat event file -> {case id: [events]} (split at Reset)"""
    cases, cur, cid = {}, None, None
    with open(path) as f:
        for line in f:
            e = json.loads(line)
            if e.get("ev") == "Reset":
                cid = e["case"]
                cur = [e]
                cases[cid] = cur
            elif cur is not None:
                cur.append(e)
    return cases


def parallel(cmds, timeout):
    """run several commands concurrently; returns list of (rc, out)"""
    procs = []
    for c in cmds:
        procs.append(subprocess.Popen(c, stdout=subprocess.PIPE, stderr=subprocess.STDOUT, text=True, errors="replace"))
    res = []
    t0 = time.time()
    for p in procs:
        left = max(1, timeout - (time.time() - t0))
        try:
            out, _ = p.communicate(timeout=left)
            res.append((p.returncode, out))
        except subprocess.TimeoutExpired:
            for q in procs:
                try:
                    q.kill()
                except Exception:
                    pass
            raise ToolError("timeout in parallel harness run")
    return res
