#!/bin/sh
# Run once after a fresh restore (offline): build the harness against /repo, parse all specs.
set -e
cd "$(dirname "$0")"
export CARGO_NET_OFFLINE=true
mkdir -p .work evidence
[ -f harness/Cargo.lock ] || cp /repo/Cargo.lock harness/Cargo.lock
(cd harness && cargo build --release --offline --quiet)
for f in spec/*.tla; do
  (cd spec && tla-sany "$(basename "$f")" >/dev/null 2>&1) || { echo "SANY failed: $f"; exit 1; }
done
echo "setup ok"
