#!/usr/bin/env python3
"""renders known_findings.json (the file the checks read) as known_findings.txt, one line per finding:
   fixed: property=<id> <commit> <what failed>          (a repaired defect; suppresses nothing)
   open: property=<id> <finding id> <what fails>        (printed by the checks as KNOWN-FINDING: property=<id> ...)"""
import json, os
V = os.path.dirname(os.path.dirname(os.path.abspath(__file__)))
k = json.load(open(os.path.join(V, "known_findings.json")))
with open(os.path.join(V, "known_findings.txt"), "w") as f:
    for e in k:
        what = " ".join(e["what"].split())
        if e["status"] == "fixed":
            f.write("fixed: property=%s %s %s\n" % (e["property"], e["commit"], what))
        else:
            f.write("open: property=%s %s %s\n" % (e["property"], e["id"], what))
print(len(k))
