#!/bin/sh
cd /verif
harness/target/release/vh refactor-replay $1 .work/t/ref.ev.ndjson .work/t/refscratch
(echo '{"ev":"Config","devs":[]}'; cat .work/t/ref.ev.ndjson) > .work/t/trref.ndjson
cd spec && TRACE=/verif/.work/t/trref.ndjson JAVA_TOOL_OPTIONS="-Xss1g -Dtlc2.tool.queue.IStateQueue=StateDeque" timeout 900 tlc -workers 1 -metadir /verif/.work/t/trr -cleanup -noGenerateSpecTE -config Trace_Refactor.cfg Trace_Refactor.tla > /verif/.work/t/trr.out 2>&1
grep -E "ACCEPT|UNCONS|rror" /verif/.work/t/trr.out | head -3
cd /verif && python3 - <<'PY'
import sys,json,collections
sys.path.insert(0,'lib'); import common
vs=common.prints(open('.work/t/trr.out').read(),'VERDICT')
c=collections.Counter(); ex={}
for v in vs:
    for r in v['bad']:
        k=(v['prop'],v['kind'].split('.',1)[1],r[0]); c[k]+=1; ex.setdefault(k,v['case'])
for k,n in sorted(c.items()): print(n,k,ex[k])
print(len(vs),'verdicts')
PY
