import sys,json,collections
sys.path.insert(0,'/verif/lib'); import common
out=open(sys.argv[1]).read()
vec={}
for l in open(sys.argv[2]):
    v=json.loads(l); vec[v['id']]=v['doc']
det={}
for l in open(sys.argv[3]):
    d=json.loads(l)
    if d.get('reject'): continue
    det[(d['case'],d['variant'],d['route'])]=d
def sig(bs):
    r=[]
    for b in bs:
        k=b['k']
        if k=='H': k='H%d'%b['l']
        if k=='P' and any(t['k']=='SB' for t in b['t']): k='P2'
        if k=='P' and any(t['k']=='Link' for t in b['t']): k='Ref'
        if k=='Q': k='Q('+sig(b['c'])+')'
        if k in('BL','OL'): k=k+'['+'|'.join(sig(i) for i in b['items'])+']'
        r.append(k)
    return ' '.join(r)
vs=common.prints(out,'VERDICT')
cnt=collections.Counter(); ex={}
for v in vs:
    props=tuple(p for p in ('C01','C02','C03','C07') if v['bad'][p])
    key=(props,sig(vec[v['case']]['blocks']))
    cnt[key]+=1; ex.setdefault(key,v)
N=int(sys.argv[4]) if len(sys.argv)>4 else 40
print(len(cnt),'distinct (props,signature)')
for k,n in cnt.most_common(N):
    v=ex[k]; d=det.get((v['case'],v['variant'],v['route']))
    print(n,k, v['variant'], repr(d['text'])[:120],'=>',repr(d.get('out'))[:120])
