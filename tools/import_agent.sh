#!/bin/sh
# usage: tools/import_agent.sh <property id> <n in out/> <new index> <round>   -- copies /tmp/wt/<id>/out/<n> to seeded/<id>-<index>
ID=$1; N=$2; K=$3; R=$4
S=/tmp/wt/$ID/out/$N; D=/verif/seeded/$ID-$K
mkdir -p $D
cp $S/patch.diff $D/patch.diff
cp $S/demo.rs $D/demo.rs
cp $S/notes.md $D/notes.md 2>/dev/null
[ -f $S/README.md ] && cp $S/README.md $D/README.md
[ -f $D/meta.json ] || printf '{\n "property": "%s",\n "summary": "",\n "needs": "",\n "detected_by": "",\n "round": %s\n}\n' $ID $R > $D/meta.json
ls $D
