import sys,json,collections
sys.path.insert(0,'/verif/lib'); import common
out=open(sys.argv[1]).read()
det={}
for l in open(sys.argv[2]):
    d=json.loads(l)
    if d.get('reject'): continue
    det[(d['case'],d['variant'],d['route'])]=d
vs=common.prints(out,'VERDICT')
cnt=collections.Counter(); ex={}
for v in vs:
    for p in ('C01','C02','C03','C07'):
        for r in v['bad'][p]:
            key=(p,r[0], (r[1][:40] if p=='C03' else ''))
            cnt[key]+=1
            ex.setdefault(key,[]).append(v)
for k,n in cnt.most_common():
    print(n,k)
    for v in ex[k][:int(sys.argv[3]) if len(sys.argv)>3 else 1]:
        d=det.get((v['case'],v['variant'],v['route']))
        print('    ',v['variant'],v['route'],repr(d['text']),'=>',repr(d.get('out')), [r for r in v['bad'][k[0]]][:1])
