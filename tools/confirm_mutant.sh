#!/bin/sh
# usage: tools/confirm_mutant.sh <seeded dir> <crate: liwe|iwes>
# confirms in a scratch worktree: patch applies, suite passes with it (252), demo fails with it and passes without
D="$(cd "$1" && pwd)"; C="$2"; N="$(basename "$D")"
WT=/tmp/wt/confirm-$N
export CARGO_TARGET_DIR=/tmp/wt/target-confirm CARGO_NET_OFFLINE=true
mkdir -p /tmp/wt
git -C /repo worktree remove --force "$WT" 2>/dev/null
git -C /repo worktree add -q --detach "$WT" HEAD || exit 2
cd "$WT" || exit 2
DEMO=crates/$C/tests/demo_$(echo $N | tr 'A-Z-' 'a-z_').rs
mkdir -p "$(dirname "$DEMO")"; cp "$D/demo.rs" "$DEMO"
T=$(basename "$DEMO" .rs)
echo "--- $N: demo WITHOUT patch"
cargo test -p $C --offline --test "$T" 2>&1 | grep -E "^test result|error(\[|:)" | head -3
git apply "$D/patch.diff" || { echo "patch does not apply"; exit 2; }
echo "--- $N: demo WITH patch"
timeout 900 cargo test -p $C --offline --test "$T" 2>&1 | grep -E "^test result|error(\[|:)" | head -3
rm "$DEMO"
echo "--- $N: suite WITH patch"
cargo test --workspace --no-fail-fast --offline 2>&1 | grep -E "^test result" | awk '{p+=$4; f+=$6} END {print "passed",p,"failed",f}'
cd /; git -C /repo worktree remove --force "$WT"
