#!/bin/sh
# usage: tools/docrun.sh <name of vec file stem> [extra doc-replay args]  -> runs replay + judge, prints triage
N=$1; shift
cd /verif
harness/target/release/vh doc-replay .work/t/vec_$N.ndjson .work/t/ev_$N.ndjson .work/t/det_$N.ndjson --variants loose-atx,tight-setext,tight-atx-indent,loose-crlf --routes graph,library,update,lsp "$@"
(echo '{"ev":"Config","devs":["F-C01-1"]}'; cat .work/t/ev_$N.ndjson) > .work/t/tr_$N.ndjson
cd spec && TRACE=/verif/.work/t/tr_$N.ndjson JAVA_TOOL_OPTIONS="-Xss1g -Dtlc2.tool.queue.IStateQueue=StateDeque" timeout 900 tlc -workers 1 -metadir /verif/.work/t/trd -cleanup -noGenerateSpecTE -config Trace_Doc.cfg Trace_Doc.tla > /verif/.work/t/trd_$N.out 2>&1
grep -c VERDICT /verif/.work/t/trd_$N.out; grep -E "ACCEPTED|UNCONS|rror" /verif/.work/t/trd_$N.out | head -3
cd /verif && python3 tools/triage_doc.py .work/t/trd_$N.out .work/t/det_$N.ndjson 2 2>&1 | cut -c1-500
