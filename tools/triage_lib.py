import sys,json,collections
sys.path.insert(0,'/verif/lib'); import common
vs=common.prints(open(sys.argv[1]).read(),'VERDICT')
c=collections.Counter(); ex={}
for v in vs:
    for p,rs in v['bad'].items():
        for r in rs:
            k=(p,r[0], json.dumps(r[1:])[:int(sys.argv[2]) if len(sys.argv)>2 else 60])
            c[k]+=1; ex.setdefault(k,v['case'])
for k,n in sorted(c.items(), key=lambda x:(x[0][0],-x[1]))[:80]:
    print(n,k,'case',ex[k])
print(len(vs),'verdicts')
