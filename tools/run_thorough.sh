#!/bin/sh
# runs the thorough tier of the given checks one after another, logs under .work/thorough/
cd /verif
for id in "$@"; do
  /usr/bin/time -f "%es" ./check $id --tier thorough > .work/thorough/$id.log 2>&1
  echo "rc=$?" >> .work/thorough/$id.log
  cp evidence/$id.json .work/thorough/$id.evidence.json 2>/dev/null
done
