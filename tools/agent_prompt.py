#!/usr/bin/env python3
"""prompt for a fresh sub-agent that seeds a property-breaking change (given ONLY the property text and a scratch worktree)
usage: tools/agent_prompt.py <property id> <crate: liwe|iwes|iwe> [extra sentence]  > /tmp/wt/prompt_<id>.txt
       (first: git -C /repo worktree add --detach /tmp/wt/<id> HEAD)"""
import sys, json
pid=sys.argv[1]; crate=sys.argv[2]; extra=sys.argv[3] if len(sys.argv)>3 else ""
P=[json.loads(l) for l in open('/verif/properties.jsonl')]
p=[x for x in P if x["id"]==pid][0]
prop="Property %s: %s\n\nStatement: %s\n\nQuantifier: %s\n\nWhy the existing tests cannot settle it: %s\n\nCode anchors: %s\n" % (
    pid, p.get("title",""), p.get("statement",""), p["quantifier"]["text"], p.get("why_tests_cant",""),
    ", ".join(p["anchors"]["files"]))
print(f"""You are helping test a verification framework for the Rust project iwe (a Markdown note-taking LSP server and CLI; crates liwe, iwes, iwe). You work ONLY inside the scratch git worktree /tmp/wt/{pid} (a checkout of the repository). Do not read or touch /verif or /repo. No network is available; build with `cargo ... --offline` (set CARGO_TARGET_DIR=/tmp/wt/{pid}/target).

The property under test:

{prop}
(Code under `#[cfg(iwe_verif)]` is instrumentation - leave it alone and do not rely on it.) {extra}

Your task: produce TWO independent, realistic source changes (mutations) to the repository, each of which BREAKS this property while (a) still compiling, and (b) still passing the entire existing test suite (`cargo test --workspace --offline`, 252 tests). Each change should look like a plausible refactoring/optimisation/bug a developer might introduce, and should need something specific to manifest (an unusual input or combination of constructs, a multi-step sequence of operations, a particular position/size/count, two cooperating sites that each look fine alone) - NOT something ordinary use would expose at once. The two changes should break the property in different ways.

For each change deliver, in /tmp/wt/{pid}/out/<n>/ (n = 1, 2):
 - patch.diff : `git diff` of the change against the checkout HEAD (source files only, no test files);
 - a demonstration: a Rust integration test file (e.g. crates/{crate}/tests/demo_{pid.lower()}_<n>.rs) or small program using only public API / the built binaries that FAILS with the change applied and PASSES without it; save a copy as out/<n>/demo.rs plus how to run it in out/<n>/README.md;
 - notes.md: what the change does, why the existing tests still pass, what exactly is needed for the violation to manifest.

Verify all of this yourself: run the full test suite with each patch applied (must be 252 passed, 0 failed), run your demonstration with and without the patch. Leave the worktree with NO patch applied at the end (git checkout -- . ; demonstrations only under out/). Report briefly what you produced and the verification results.""")
