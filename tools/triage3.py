import sys,json,collections
sys.path.insert(0,'/verif/lib'); import common
out=open(sys.argv[1]).read()
vec={}
for l in open(sys.argv[2]):
    v=json.loads(l); vec[v['id']]=v
det={}
for l in open(sys.argv[3]):
    d=json.loads(l)
    if d.get('reject'): continue
    det[(d['case'],d['variant'],d['route'])]=d
vs=common.prints(out,'VERDICT')
cnt=collections.Counter(); ex={}
for v in vs:
    props=tuple(p for p in ('C01','C02','C03','C07') if v['bad'][p])
    tag=vec[v['case']]['tag']
    key=(props,tuple(tag[1:]))
    cnt[key]+=1; ex.setdefault(key,v)
single=[k for k in cnt if len(k[1])==1]
print(len(cnt),'distinct; singles:',len(single))
for k in sorted(single):
    v=ex[k]; d=det.get((v['case'],v['variant'],v['route']))
    print(cnt[k],k, vec[v['case']]['tag'][0], repr(d['text'])[:100],'=>',repr(d.get('out'))[:100])
