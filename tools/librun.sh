#!/bin/sh
# usage: tools/librun.sh <hist file> [devs json]
H=$1; D=${2:-[]}
cd /verif
harness/target/release/vh lib-replay $H .work/t/lib.ev.ndjson
(echo "{\"ev\":\"Config\",\"devs\":$D}"; cat .work/t/lib.ev.ndjson) > .work/t/trlib.ndjson
cd spec && TRACE=/verif/.work/t/trlib.ndjson JAVA_TOOL_OPTIONS="-Xss1g -Dtlc2.tool.queue.IStateQueue=StateDeque" timeout 1200 tlc -workers 1 -metadir /verif/.work/t/trl -cleanup -noGenerateSpecTE -config Trace_Lib.cfg Trace_Lib.tla > /verif/.work/t/trl.out 2>&1
grep -E "ACCEPTED|UNCONS|rror" /verif/.work/t/trl.out | head -5
cd /verif && python3 tools/triage_lib.py .work/t/trl.out 100
