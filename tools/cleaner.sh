#!/bin/sh
# frees the bulky intermediate files of a thorough check once its log is closed (rc= line); replays and evidence stay
# usage: tools/cleaner.sh &     (stops when .work/thorough/STOP exists)
cd /verif/.work || exit 2
while true; do
  for f in thorough/*.log; do
    id=$(basename "$f" .log)
    if grep -q "^rc=" "$f" 2>/dev/null && [ ! -f "thorough/$id.cleaned" ]; then
      find "$id" -maxdepth 1 -type f \( -name "ev_*" -o -name "det_*" -o -name "tr_*" -o -name "vec_*" -o -name "*.events.*" -o -name "arena_ev*" -o -name "builder_ev*" -o -name "ev.*" \) -size +20M -delete 2>/dev/null
      touch "thorough/$id.cleaned"
    fi
  done
  [ -f thorough/STOP ] && exit 0
  sleep 60
done
