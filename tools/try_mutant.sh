#!/bin/sh
# usage: tools/try_mutant.sh <patch.diff> <check id>...   applies the patch to /repo, runs the quick checks, reverts
P="$1"; shift
cd /repo || exit 2
git diff --quiet || { echo "/repo is dirty"; exit 2; }
git apply "$P" || { echo "patch does not apply"; exit 2; }
cd /verif
for id in "$@"; do
  echo "=== $id with $(basename $(dirname $P))/$(basename $P)"
  ./check "$id" --tier quick 2>&1 | grep -E "^(VIOLATION|OK|KNOWN|TOOL)" | head -5
  echo "rc=$?"
done
cd /repo && git checkout -- . && git clean -fdq crates
(cd /verif/harness && cargo build --release --offline --quiet 2>/dev/null)
